package main

import (
	"fmt"
	"go/ast"
	"go/types"

	"golang.org/x/tools/go/packages"
)

// Value is a symbolic Go value. Scalars are *Term; aggregates are immutable trees.
type Value interface{}

type StructV struct {
	Fields []Value
}

type ArrayV struct {
	Elems []Value
}

// UFArrayV is a read-only array whose content is an uninterpreted function of its indices.
type UFArrayV struct {
	Fn     string
	Prefix []*Term
	Dims   []int64
	Elem   types.Type // final element type (scalar)
}

// Loc is an abstract memory location (local variable, global, or allocation).
type Loc struct {
	Name string
	Typ  types.Type
	id   int
}

type PathElem struct {
	Idx int   // field index or concrete array index
	Sym *Term // symbolic array index (BV64), nil if concrete
}

type PtrV struct {
	Nil   bool
	Loc   *Loc
	Path  []PathElem
	NilIf *Term // the pointer is nil exactly when this holds (nil: never)
}

// SliceV: view [Off, Off+Len) on a backing array location. Lengths are concrete.
type SliceV struct {
	Nil bool
	Loc *Loc
	Off int
	Len int
	Cap int
}

type FuncV struct {
	AbstractID *Term      // non-nil: a function value of unknown identity
	AbsType    types.Type // its (named) function type
	Decl  *ast.FuncDecl
	Lit   *ast.FuncLit
	Env   *Env
	Recv  Value // bound receiver for method values
	Obj   *types.Func
	Pkg   *packages.Package
	Named string // builtin or modelled function name
}

type TupleV struct {
	Vals []Value
}

// StrV is a string: either a concrete Go string or an opaque symbolic identity.
type StrV struct {
	Concrete bool
	S        string
	T        *Term // Int-sorted identity for symbolic strings
}

// IfaceV is an interface value holding a dynamic value of a known static type.
type IfaceV struct {
	Nil bool
	Typ types.Type
	V   Value
}

// NilLit is the untyped nil literal before it meets a type.
type NilLit struct{}

// OpaqueV stands for a value the translation does not model (errors, log strings…).
type OpaqueV struct {
	What string
	// IsNil is a Bool term for nil-ness when the opaque value is an error/interface.
	IsNil *Term
}

type Env struct {
	vars   map[types.Object]*Loc
	parent *Env
}

func NewEnv(parent *Env) *Env { return &Env{vars: map[types.Object]*Loc{}, parent: parent} }

func (e *Env) Lookup(o types.Object) *Loc {
	for x := e; x != nil; x = x.parent {
		if l, ok := x.vars[o]; ok {
			return l
		}
	}
	return nil
}

type unsupportedErr struct{ msg string }

func (u *unsupportedErr) Error() string { return "unsupported: " + u.msg }

func unsupported(format string, args ...interface{}) {
	panic(&unsupportedErr{fmt.Sprintf(format, args...)})
}

// intInfo returns width and signedness for an integer-like basic type.
func intInfo(t types.Type) (w int, signed bool, ok bool) {
	b, isB := t.Underlying().(*types.Basic)
	if !isB {
		return 0, false, false
	}
	switch b.Kind() {
	case types.Int8:
		return 8, true, true
	case types.Int16:
		return 16, true, true
	case types.Int32:
		return 32, true, true
	case types.Int64, types.Int:
		return 64, true, true
	case types.Uint8:
		return 8, false, true
	case types.Uint16:
		return 16, false, true
	case types.Uint32:
		return 32, false, true
	case types.Uint64, types.Uint, types.Uintptr:
		return 64, false, true
	case types.UntypedInt, types.UntypedRune:
		return 64, true, true
	}
	return 0, false, false
}

func isFloat(t types.Type) (*Sort, bool) {
	b, isB := t.Underlying().(*types.Basic)
	if !isB {
		return nil, false
	}
	switch b.Kind() {
	case types.Float32:
		return FP32Sort, true
	case types.Float64, types.UntypedFloat:
		return FP64Sort, true
	}
	return nil, false
}

func isBool(t types.Type) bool {
	b, isB := t.Underlying().(*types.Basic)
	return isB && (b.Kind() == types.Bool || b.Kind() == types.UntypedBool)
}

func isString(t types.Type) bool {
	b, isB := t.Underlying().(*types.Basic)
	return isB && (b.Kind() == types.String || b.Kind() == types.UntypedString)
}

func scalarSort(t types.Type) (*Sort, bool) {
	if w, _, ok := intInfo(t); ok {
		return BVSort(w), true
	}
	if s, ok := isFloat(t); ok {
		return s, true
	}
	if isBool(t) {
		return BoolSort, true
	}
	return nil, false
}

// countScalars returns the number of scalar leaves in a value type (or -1 if not a plain value type).
func countScalars(t types.Type) int64 {
	switch u := t.Underlying().(type) {
	case *types.Basic:
		return 1
	case *types.Struct:
		var n int64
		for i := 0; i < u.NumFields(); i++ {
			c := countScalars(u.Field(i).Type())
			if c < 0 {
				return -1
			}
			n += c
		}
		return n
	case *types.Array:
		c := countScalars(u.Elem())
		if c < 0 {
			return -1
		}
		return c * u.Len()
	}
	return -1
}

func (ex *Exec) zeroValue(t types.Type) Value {
	ts := ex.ts
	if ex.isAbstractType(t) {
		return &OpaqueTokV{ID: ts.BV(0, 64)}
	}
	switch u := t.Underlying().(type) {
	case *types.Basic:
		if w, _, ok := intInfo(t); ok {
			return ts.BV(0, w)
		}
		if s, ok := isFloat(t); ok {
			if s == FP32Sort {
				return ts.FP32(0)
			}
			return ts.FP64(0)
		}
		if isBool(t) {
			return ts.False()
		}
		if isString(t) {
			return &StrV{Concrete: true}
		}
		if u.Kind() == types.UnsafePointer {
			return &PtrV{Nil: true}
		}
	case *types.Struct:
		sv := &StructV{Fields: make([]Value, u.NumFields())}
		for i := range sv.Fields {
			sv.Fields[i] = ex.zeroValue(u.Field(i).Type())
		}
		return sv
	case *types.Array:
		av := &ArrayV{Elems: make([]Value, u.Len())}
		if u.Len() > 0 {
			z := ex.zeroValue(u.Elem())
			for i := range av.Elems {
				av.Elems[i] = z
			}
		}
		return av
	case *types.Pointer:
		if hc := ex.heapClassOf(u.Elem()); hc != nil {
			return &HeapRefV{Ref: ts.BV(0, 64), Cls: hc}
		}
		return &PtrV{Nil: true}
	case *types.Slice:
		return &SliceV{Nil: true}
	case *types.Signature:
		return &FuncV{Named: "<nil>"}
	case *types.Interface:
		return &IfaceV{Nil: true}
	case *types.Map:
		return &MapV{Nil: true}
	}
	unsupported("zero value of type %s", t)
	return nil
}

// symbolicValue builds an unconstrained value of a value type; names are used for replay.
func (ex *Exec) symbolicValue(name string, t types.Type) Value {
	ts := ex.ts
	if ex.isAbstractType(t) {
		return &OpaqueTokV{ID: ts.Var(name, BVSort(64))}
	}
	switch u := t.Underlying().(type) {
	case *types.Basic:
		if s, ok := scalarSort(t); ok {
			if k, bound := ex.binding[name]; bound {
				w, _, isInt := intInfo(t)
				if !isInt {
					unsupported("split variable %s is not an integer", name)
				}
				v := ts.BV(uint64(k), w)
				ex.inputs = append(ex.inputs, &InputVar{Name: name, Term: v, Type: t})
				ex.boundSeen[name] = true
				return v
			}
			v := ts.Var(name, s)
			ex.inputs = append(ex.inputs, &InputVar{Name: name, Term: v, Type: t})
			return v
		}
		if isString(t) {
			v := ts.Var(name, IntSort)
			ex.inputs = append(ex.inputs, &InputVar{Name: name, Term: v, Type: t})
			return &StrV{T: v}
		}
	case *types.Struct:
		sv := &StructV{Fields: make([]Value, u.NumFields())}
		for i := range sv.Fields {
			sv.Fields[i] = ex.symbolicValue(name+"."+u.Field(i).Name(), u.Field(i).Type())
		}
		return sv
	case *types.Array:
		if n := countScalars(t); n > 160 {
			// large read-only table: uninterpreted function of the indices
			var dims []int64
			var et types.Type = t
			for {
				a, ok := et.Underlying().(*types.Array)
				if !ok {
					break
				}
				dims = append(dims, a.Len())
				et = a.Elem()
			}
			if _, ok := scalarSort(et); !ok {
				unsupported("large symbolic array with non-scalar element %s", et)
			}
			ex.inputs = append(ex.inputs, &InputVar{Name: name, UF: true, Type: t, Dims: dims})
			return &UFArrayV{Fn: name, Dims: dims, Elem: et}
		}
		av := &ArrayV{Elems: make([]Value, u.Len())}
		for i := range av.Elems {
			av.Elems[i] = ex.symbolicValue(fmt.Sprintf("%s[%d]", name, i), u.Elem())
		}
		return av
	case *types.Interface, *types.Signature:
		v := ex.abstractValue(name, t, false)
		_ = u
		return v
	case *types.Slice:
		// arbitrary slice: arbitrary non-negative length, arbitrary elements
		sv := &SymSliceV{Len: ts.Var(name+".len", BVSort(64)), Elem: u.Elem()}
		ex.facts = append(ex.facts, ts.BVCmp(OpBVSle, ts.BV(0, 64), sv.Len))
		for _, lf := range ex.elemLeaves(u.Elem()) {
			sv.Arrs = append(sv.Arrs, ts.Var(name+"."+lf.name, ArraySort(refSort, lf.sort)))
		}
		ex.inputs = append(ex.inputs, &InputVar{Name: name + ".len", Term: sv.Len, Type: types.Typ[types.Int]})
		return sv
	case *types.Map:
		ks, vs := ex.mapSorts(u)
		v := ts.Var(name, ArraySort(ks, vs))
		ex.inputs = append(ex.inputs, &InputVar{Name: name, Term: v, Type: t})
		return &MapV{Val: v, T: u}
	case *types.Pointer:
		if hc := ex.heapClassOf(u.Elem()); hc != nil {
			v := ts.Var(name, refSort)
			ex.inputs = append(ex.inputs, &InputVar{Name: name, Term: v, Type: t})
			return &HeapRefV{Ref: v, Cls: hc}
		}
		loc := ex.newLoc("*"+name, u.Elem())
		ex.initStore[loc] = ex.symbolicValue("(*"+name+")", u.Elem())
		return &PtrV{Loc: loc}
	}
	unsupported("symbolic value of type %s (%s)", t, name)
	return nil
}

func (ex *Exec) newLoc(name string, t types.Type) *Loc {
	ex.locCounter++
	return &Loc{Name: name, Typ: t, id: ex.locCounter}
}

// iteValue merges two values of the same shape.
func (ex *Exec) iteValue(c *Term, a, b Value) Value {
	if c.IsTrue() {
		return a
	}
	if c.IsFalse() {
		return b
	}
	if a == b {
		return a
	}
	switch x := a.(type) {
	case *Term:
		y, ok := b.(*Term)
		if !ok {
			unsupported("merge of scalar with %T", b)
		}
		return ex.ts.Ite(c, x, y)
	case *StructV:
		y := b.(*StructV)
		r := &StructV{Fields: make([]Value, len(x.Fields))}
		same := true
		for i := range x.Fields {
			r.Fields[i] = ex.iteValue(c, x.Fields[i], y.Fields[i])
			if r.Fields[i] != x.Fields[i] {
				same = false
			}
		}
		if same {
			return x
		}
		return r
	case *ArrayV:
		y, ok := b.(*ArrayV)
		if !ok || len(x.Elems) != len(y.Elems) {
			unsupported("merge of arrays of different shape")
		}
		r := &ArrayV{Elems: make([]Value, len(x.Elems))}
		same := true
		for i := range x.Elems {
			r.Elems[i] = ex.iteValue(c, x.Elems[i], y.Elems[i])
			if r.Elems[i] != x.Elems[i] {
				same = false
			}
		}
		if same {
			return x
		}
		return r
	case *PtrV:
		y, ok := b.(*PtrV)
		if ok && ptrSame(x, y) && x.NilIf == y.NilIf {
			return x
		}
		if ok {
			// nil on one side, or the same target with different nil conditions
			xn, yn := ex.ptrNilCond(x), ex.ptrNilCond(y)
			switch {
			case x.Nil && y.Nil:
				return x
			case x.Nil:
				return &PtrV{Loc: y.Loc, Path: y.Path, NilIf: ex.ts.Ite(c, ex.ts.True(), yn)}
			case y.Nil:
				return &PtrV{Loc: x.Loc, Path: x.Path, NilIf: ex.ts.Ite(c, xn, ex.ts.True())}
			case ptrSameTarget(x, y):
				return &PtrV{Loc: x.Loc, Path: x.Path, NilIf: ex.ts.Ite(c, xn, yn)}
			}
		}
		unsupported("merge of different pointers")
	case *SymSliceV:
		switch y := b.(type) {
		case *SymSliceV:
			return ex.mergeSym(c, x, y)
		case *SliceV:
			if ex.curMergeB != nil {
				return ex.mergeSym(c, x, ex.toSym(ex.curMergeB, y, x.Elem))
			}
		}
		unsupported("merge of symbolic slice with %T", b)
	case *SliceV:
		if ys, isSym := b.(*SymSliceV); isSym && ex.curMergeA != nil {
			return ex.mergeSym(c, ex.toSym(ex.curMergeA, x, ys.Elem), ys)
		}
		y, ok := b.(*SliceV)
		if ok && *x == *y {
			return x
		}
		if ok {
			return ex.mergeSlices(c, x, y)
		}
		unsupported("merge of slice with %T", b)
	case *TupleV:
		y := b.(*TupleV)
		r := &TupleV{Vals: make([]Value, len(x.Vals))}
		for i := range x.Vals {
			r.Vals[i] = ex.iteValue(c, x.Vals[i], y.Vals[i])
		}
		return r
	case *StrV:
		y, ok := b.(*StrV)
		if !ok {
			unsupported("merge of string with %T", b)
		}
		if x.Concrete && y.Concrete && x.S == y.S {
			return x
		}
		return &StrV{T: ex.ts.Ite(c, ex.strTerm(x), ex.strTerm(y))}
	case *OpaqueV:
		if yi, isI := b.(*IfaceV); isI && yi.Nil && x.IsNil != nil {
			return &OpaqueV{What: x.What, IsNil: ex.ts.Ite(c, x.IsNil, ex.ts.True())}
		}
		y, ok := b.(*OpaqueV)
		if !ok {
			unsupported("merge of opaque with %T", b)
		}
		r := &OpaqueV{What: x.What}
		if x.IsNil != nil && y.IsNil != nil {
			r.IsNil = ex.ts.Ite(c, x.IsNil, y.IsNil)
		}
		return r
	case *AbstractIfaceV:
		if y, ok := b.(*AbstractIfaceV); ok {
			return &AbstractIfaceV{ID: ex.ts.Ite(c, x.ID, y.ID), Typ: x.Typ}
		}
	case *FuncV:
		y, ok := b.(*FuncV)
		if ok && x.AbstractID != nil && y.AbstractID != nil {
			return &FuncV{AbstractID: ex.ts.Ite(c, x.AbstractID, y.AbstractID), AbsType: x.AbsType}
		}
		if ok && x.Decl == y.Decl && x.Lit == y.Lit && x.Named == y.Named && x.Env == y.Env && x.AbstractID == nil && y.AbstractID == nil {
			return x
		}
		unsupported("merge of different function values")
	case *IfaceV:
		if yo, isO := b.(*OpaqueV); isO && x.Nil && yo.IsNil != nil {
			return &OpaqueV{What: yo.What, IsNil: ex.ts.Ite(c, ex.ts.True(), yo.IsNil)}
		}
		y, ok := b.(*IfaceV)
		if ok && x.Nil && y.Nil {
			return x
		}
		if ok && !x.Nil && !y.Nil && types.Identical(x.Typ, y.Typ) {
			return &IfaceV{Typ: x.Typ, V: ex.iteValue(c, x.V, y.V)}
		}
		unsupported("merge of different interface values")
	case *MapV:
		y, ok := b.(*MapV)
		if ok {
			return ex.mergeMaps(c, x, y)
		}
	case *OpaqueTokV:
		if y, ok := b.(*OpaqueTokV); ok {
			return &OpaqueTokV{ID: ex.ts.Ite(c, x.ID, y.ID)}
		}
	case *HeapRefV:
		y, ok := b.(*HeapRefV)
		if ok && x.Cls == y.Cls {
			return &HeapRefV{Ref: ex.ts.Ite(c, x.Ref, y.Ref), Cls: x.Cls}
		}
	case *UFArrayV:
		unsupported("merge of table values")
	case nil:
		if b == nil {
			return nil
		}
	}
	unsupported("merge of %T and %T", a, b)
	return nil
}

func (ex *Exec) ptrNilCond(p *PtrV) *Term {
	if p.Nil {
		return ex.ts.True()
	}
	if p.NilIf != nil {
		return p.NilIf
	}
	return ex.ts.False()
}

func ptrSameTarget(x, y *PtrV) bool {
	if x.Loc != y.Loc || len(x.Path) != len(y.Path) {
		return false
	}
	for i := range x.Path {
		if x.Path[i] != y.Path[i] {
			return false
		}
	}
	return true
}

func ptrSame(x, y *PtrV) bool {
	if x.Nil || y.Nil {
		return x.Nil && y.Nil
	}
	if x.Loc != y.Loc || len(x.Path) != len(y.Path) {
		return false
	}
	for i := range x.Path {
		if x.Path[i] != y.Path[i] {
			return false
		}
	}
	return true
}

// strTerm returns the Int identity of a string (literals are interned).
func (ex *Exec) strTerm(s *StrV) *Term {
	if !s.Concrete {
		return s.T
	}
	ex.prog.mu.Lock()
	id, ok := ex.prog.strIntern[s.S]
	if !ok {
		id = int64(len(ex.prog.strIntern)) + 1
		ex.prog.strIntern[s.S] = id
	}
	ex.prog.mu.Unlock()
	// literals get negative identities so that symbolic strings constrained >= 0
	// are never silently equal to one of them unless the solver chooses so.
	return ex.ts.Int(id)
}

// eqValue builds the Go == comparison of two values.
func (ex *Exec) eqValue(a, b Value) *Term {
	ts := ex.ts
	switch x := a.(type) {
	case *Term:
		y, ok := b.(*Term)
		if !ok {
			unsupported("== between scalar and %T", b)
		}
		if x.Sort.Kind == SFP32 || x.Sort.Kind == SFP64 {
			return ts.FPBin(OpFPEq, x, y)
		}
		return ts.Eq(x, y)
	case *StructV:
		y := b.(*StructV)
		r := ts.True()
		for i := range x.Fields {
			r = ts.And(r, ex.eqValue(x.Fields[i], y.Fields[i]))
		}
		return r
	case *ArrayV:
		y, ok := b.(*ArrayV)
		if !ok {
			unsupported("== between array kinds")
		}
		r := ts.True()
		for i := range x.Elems {
			r = ts.And(r, ex.eqValue(x.Elems[i], y.Elems[i]))
		}
		return r
	case *StrV:
		y := b.(*StrV)
		if x.Concrete && y.Concrete {
			return ts.Bool(x.S == y.S)
		}
		return ts.Eq(ex.strTerm(x), ex.strTerm(y))
	case *PtrV:
		y, ok := b.(*PtrV)
		if !ok {
			unsupported("== between pointer and %T", b)
		}
		if x.Nil || y.Nil {
			if x.Nil && y.Nil {
				return ts.True()
			}
			if x.Nil {
				return ex.ptrNilCond(y)
			}
			return ex.ptrNilCond(x)
		}
		if x.NilIf != nil || y.NilIf != nil {
			if ptrSameTarget(x, y) {
				return ts.Eq(ex.ptrNilCond(x), ex.ptrNilCond(y))
			}
			return ts.And(ex.ptrNilCond(x), ex.ptrNilCond(y))
		}
		return ts.Bool(ptrSame(x, y))
	case *IfaceV:
		y, ok := b.(*IfaceV)
		if ok && (x.Nil || y.Nil) {
			return ts.Bool(x.Nil && y.Nil)
		}
		if ok && types.Identical(x.Typ, y.Typ) {
			return ex.eqValue(x.V, y.V)
		}
		if oy, ok := b.(*OpaqueV); ok && x.Nil && oy.IsNil != nil {
			return oy.IsNil
		}
	case *OpaqueV:
		switch y := b.(type) {
		case *IfaceV:
			if y.Nil && x.IsNil != nil {
				return x.IsNil
			}
		case *PtrV:
			if y.Nil && x.IsNil != nil {
				return x.IsNil
			}
		case *OpaqueV:
			if x == y {
				return ts.True()
			}
		}
	case *SliceV:
		if y, ok := b.(*SliceV); ok && y.Nil {
			return ts.Bool(x.Nil)
		}
	case *AbstractIfaceV:
		if y, ok := b.(*IfaceV); ok && y.Nil {
			return ts.Eq(x.ID, ts.BV(0, 64))
		}
		if y, ok := b.(*AbstractIfaceV); ok {
			return ts.Eq(x.ID, y.ID)
		}
	case *FuncV:
		if y, ok := b.(*FuncV); ok && x.AbstractID != nil && y.AbstractID != nil {
			return ts.Eq(x.AbstractID, y.AbstractID)
		}
		if y, ok := b.(*FuncV); ok && y.Named == "<nil>" {
			if x.AbstractID != nil {
				return ts.Eq(x.AbstractID, ts.BV(0, 64))
			}
			return ts.Bool(x.Named == "<nil>")
		}
	case *MapV:
		if y, ok := b.(*MapV); ok && y.Nil {
			return ts.Bool(x.Nil)
		}
		if y, ok := b.(*MapV); ok && !x.Nil && !y.Nil {
			return ts.Eq(x.Val, y.Val) // extensional (spec use only)
		}
	case *HeapRefV:
		if y, ok := b.(*HeapRefV); ok {
			return ts.Eq(x.Ref, y.Ref)
		}
	}
	unsupported("== between %T and %T", a, b)
	return nil
}

// InputVar records a symbolic input for model extraction / replay.
type InputVar struct {
	Name string
	Term *Term
	Type types.Type
	UF   bool
	Dims []int64
}

// ElemAddrV is the address of an element of a slice of unknown length held in a variable or
// field (&x.f[i]); it only flows into sync/atomic pointer operations, which are given their
// sequential meaning on the slice value.
type ElemAddrV struct {
	Owner LV
	Idx   *Term
	Elem  types.Type
}
