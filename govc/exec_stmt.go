package main

import (
	"go/ast"
	"go/token"
	"go/types"
	"strings"
)

const hardLoopCap = 200000

func (ex *Exec) execBlock(stmts []ast.Stmt, st *State) *Flow {
	fl := &Flow{}
	ex.pushScope()
	cur := st
	for _, s := range stmts {
		if cur == nil {
			break
		}
		r := ex.execStmt(s, cur)
		fl.Breaks = append(fl.Breaks, r.Breaks...)
		fl.Conts = append(fl.Conts, r.Conts...)
		fl.Returns = append(fl.Returns, r.Returns...)
		cur = r.Normal
	}
	fl.Normal = cur
	ex.popScope(ex.flowStates(fl)...)
	return fl
}

func (ex *Exec) execStmt(s ast.Stmt, st *State) *Flow {
	ex.steps++
	switch s := s.(type) {
	case *ast.BlockStmt:
		return ex.execBlock(s.List, st)
	case *ast.ExprStmt:
		ex.eval(s.X, st)
		if st.pc.IsFalse() {
			return &Flow{}
		}
		return &Flow{Normal: st}
	case *ast.DeclStmt:
		gd := s.Decl.(*ast.GenDecl)
		if gd.Tok == token.VAR {
			for _, sp := range gd.Specs {
				vs := sp.(*ast.ValueSpec)
				if len(vs.Values) == 0 {
					for _, n := range vs.Names {
						obj := ex.info().Defs[n]
						ex.declare(st, obj, ex.zeroValue(obj.Type()))
					}
				} else if len(vs.Values) == len(vs.Names) {
					for i, n := range vs.Names {
						v := ex.evalTo(vs.Values[i], st, nil)
						if n.Name == "_" {
							continue
						}
						obj := ex.info().Defs[n]
						ex.declare(st, obj, ex.convertAssign(v, obj.Type(), st))
					}
				} else {
					tv := ex.eval(vs.Values[0], st).(*TupleV)
					for i, n := range vs.Names {
						if n.Name == "_" {
							continue
						}
						obj := ex.info().Defs[n]
						ex.declare(st, obj, ex.convertAssign(tv.Vals[i], obj.Type(), st))
					}
				}
			}
		}
		return &Flow{Normal: st}
	case *ast.AssignStmt:
		ex.execAssign(s, st)
		if st.pc.IsFalse() {
			return &Flow{}
		}
		return &Flow{Normal: st}
	case *ast.IncDecStmt:
		lv := ex.lvalue(s.X, st)
		old := ex.loadLV(st, lv, s.Pos()).(*Term)
		one := ex.ts.BV(1, old.Sort.W)
		op := OpBVAdd
		if s.Tok == token.DEC {
			op = OpBVSub
		}
		ex.storeLV(st, lv, ex.ts.BVBin(op, old, one))
		return &Flow{Normal: st}
	case *ast.IfStmt:
		return ex.execIf(s, st)
	case *ast.ForStmt:
		return ex.execFor(s, st, "")
	case *ast.RangeStmt:
		return ex.execRange(s, st, "")
	case *ast.SwitchStmt:
		return ex.execSwitch(s, st, "")
	case *ast.LabeledStmt:
		switch x := s.Stmt.(type) {
		case *ast.ForStmt:
			return ex.execFor(x, st, s.Label.Name)
		case *ast.RangeStmt:
			return ex.execRange(x, st, s.Label.Name)
		case *ast.SwitchStmt:
			return ex.execSwitch(x, st, s.Label.Name)
		}
		return ex.execStmt(s.Stmt, st)
	case *ast.BranchStmt:
		lbl := ""
		if s.Label != nil {
			lbl = s.Label.Name
		}
		switch s.Tok {
		case token.BREAK:
			return &Flow{Breaks: []Exit{{lbl, st}}}
		case token.CONTINUE:
			return &Flow{Conts: []Exit{{lbl, st}}}
		}
		unsupported("branch statement %s at %s", s.Tok, ex.pos(s.Pos()))
	case *ast.ReturnStmt:
		return ex.execReturn(s, st)
	case *ast.EmptyStmt:
		return &Flow{Normal: st}
	case *ast.DeferStmt:
		if ex.isIgnorableDefer(s.Call) {
			return &Flow{Normal: st}
		}
		unsupported("defer at %s", ex.pos(s.Pos()))
	case *ast.GoStmt:
		unsupported("go statement at %s", ex.pos(s.Pos()))
	case *ast.SelectStmt:
		unsupported("select statement at %s", ex.pos(s.Pos()))
	case *ast.TypeSwitchStmt:
		unsupported("type switch at %s", ex.pos(s.Pos()))
	case *ast.SendStmt:
		unsupported("channel send at %s", ex.pos(s.Pos()))
	}
	unsupported("statement %T at %s", s, ex.pos(s.Pos()))
	return nil
}

func (ex *Exec) isIgnorableDefer(call *ast.CallExpr) bool {
	if sel, ok := call.Fun.(*ast.SelectorExpr); ok {
		if s := ex.selOf(sel); s != nil {
			if fn, ok := s.Obj().(*types.Func); ok && fn.Pkg() != nil && fn.Pkg().Path() == "sync" {
				ex.assumptions["sync.Mutex Lock/Unlock treated as no-ops (sequential semantics)"] = true
				return true
			}
		}
	}
	return false
}

func (ex *Exec) execIf(s *ast.IfStmt, st *State) *Flow {
	ex.pushScope()
	if s.Init != nil {
		r := ex.execStmt(s.Init, st)
		st = r.Normal
		if st == nil {
			ex.popScope()
			return &Flow{}
		}
	}
	c := ex.evalBool(s.Cond, st)
	fl := &Flow{}
	var thenN, elseN *State
	if c.IsTrue() {
		r := ex.execBlock(s.Body.List, st)
		*fl = *r
		ex.popScope(ex.flowStates(fl)...)
		return fl
	}
	if c.IsFalse() {
		if s.Else != nil {
			r := ex.execStmt(s.Else, st)
			*fl = *r
		} else {
			fl.Normal = st
		}
		ex.popScope(ex.flowStates(fl)...)
		return fl
	}
	sThen := st.fork(ex.ts.And(st.pc, c))
	sElse := st
	sElse.pc = ex.ts.And(st.pc, ex.ts.Not(c))
	r1 := ex.execBlock(s.Body.List, sThen)
	thenN = r1.Normal
	fl.Breaks = append(fl.Breaks, r1.Breaks...)
	fl.Conts = append(fl.Conts, r1.Conts...)
	fl.Returns = append(fl.Returns, r1.Returns...)
	if s.Else != nil {
		r2 := ex.execStmt(s.Else, sElse)
		elseN = r2.Normal
		fl.Breaks = append(fl.Breaks, r2.Breaks...)
		fl.Conts = append(fl.Conts, r2.Conts...)
		fl.Returns = append(fl.Returns, r2.Returns...)
	} else {
		elseN = sElse
	}
	fl.Normal = ex.mergeStates(thenN, elseN)
	ex.popScope(ex.flowStates(fl)...)
	return fl
}

func (ex *Exec) execReturn(s *ast.ReturnStmt, st *State) *Flow {
	f := ex.cur()
	var vals []Value
	var sig *types.Signature
	if f.lit != nil {
		sig = ex.typeOf(f.lit).(*types.Signature)
	} else {
		sig = f.fi.Obj.Type().(*types.Signature)
	}
	nres := sig.Results().Len()
	switch {
	case len(s.Results) == 0:
		for _, l := range f.results {
			vals = append(vals, ex.load(st, l))
		}
	case len(s.Results) == 1 && nres > 1:
		tv := ex.eval(s.Results[0], st).(*TupleV)
		for i, v := range tv.Vals {
			vals = append(vals, ex.convertAssign(v, sig.Results().At(i).Type(), st))
		}
	default:
		for i, e := range s.Results {
			vals = append(vals, ex.convertAssign(ex.evalTo(e, st, sig.Results().At(i).Type()), sig.Results().At(i).Type(), st))
		}
	}
	if st.pc.IsFalse() {
		return &Flow{}
	}
	// witnesses of the contract under verification take their value here
	if ex.recursing != nil && ex.recursing.fi == f.fi && f.lit == nil && len(ex.frames) == 2 {
		for _, c := range ex.recursing.blk.Clauses {
			if c.Kind != "use" || c.Loop != -2 {
				continue
			}
			// lemma instance over the locals at this return
			e, err := ex.prog.CheckExprAt(f.fi.Pkg, s.Pos(), c.Go)
			if err != nil {
				unsupported("return use %s does not type-check at %s: %v", c.Text, ex.pos(s.Pos()), err)
			}
			ex.suppress++
			g := ex.evalBool(e, st.fork(st.pc))
			ex.suppress--
			ex.facts = append(ex.facts, g)
			if ex.prog.Axioms[lemmaKey(f.fi.Pkg.Name, c.ID)] {
				ex.assumptions["AXIOM "+f.fi.Pkg.Name+"."+c.ID+" (assumed, see the contract file)"] = true
			} else {
				ex.usedContracts["lemma "+lemmaKey(f.fi.Pkg.Name, c.ID)] = true
			}
		}
		for _, w := range ex.recursing.blk.Witnesses {
			gl := ex.ghostLoc(ex.recursing.blk.Pkg, w[0])
			e, err := ex.prog.CheckExprAt(f.fi.Pkg, s.Pos(), w[2])
			if gl == nil || err != nil {
				unsupported("witness %s = %s does not type-check at %s: %v", w[0], w[2], ex.pos(s.Pos()), err)
			}
			ex.suppress++
			st.store[gl] = ex.convertAssign(ex.eval(e, st), gl.Typ, st)
			ex.suppress--
		}
	}
	return &Flow{Returns: []*RetState{{St: st, Vals: vals}}}
}

func (ex *Exec) execAssign(s *ast.AssignStmt, st *State) {
	if s.Tok != token.ASSIGN && s.Tok != token.DEFINE {
		// op-assign
		lv := ex.lvalue(s.Lhs[0], st)
		old := ex.loadLV(st, lv, s.Pos())
		rhs := ex.eval(s.Rhs[0], st)
		var op token.Token
		switch s.Tok {
		case token.ADD_ASSIGN:
			op = token.ADD
		case token.SUB_ASSIGN:
			op = token.SUB
		case token.MUL_ASSIGN:
			op = token.MUL
		case token.QUO_ASSIGN:
			op = token.QUO
		case token.REM_ASSIGN:
			op = token.REM
		case token.AND_ASSIGN:
			op = token.AND
		case token.OR_ASSIGN:
			op = token.OR
		case token.XOR_ASSIGN:
			op = token.XOR
		case token.SHL_ASSIGN:
			op = token.SHL
		case token.SHR_ASSIGN:
			op = token.SHR
		case token.AND_NOT_ASSIGN:
			op = token.AND_NOT
		}
		lt := ex.typeOf(s.Lhs[0])
		v := ex.binop(op, old, rhs, lt, ex.typeOf(s.Rhs[0]), st, s.Pos())
		ex.storeLV(st, lv, v)
		return
	}
	// v[i] = x for a slice variable of unknown length
	if s.Tok == token.ASSIGN && len(s.Lhs) == 1 && len(s.Rhs) == 1 {
		if ix, ok := ast.Unparen(s.Lhs[0]).(*ast.IndexExpr); ok {
			if _, isSlice := ex.typeOf(ix.X).Underlying().(*types.Slice); isSlice {
				if id, ok := ast.Unparen(ix.X).(*ast.Ident); ok {
					if obj, ok := ex.objOf(id).(*types.Var); ok {
						if l := ex.cur().env.Lookup(obj); l != nil {
							if _, isSym := ex.load(st, l).(*SymSliceV); isSym {
								val := ex.convertAssign(ex.evalTo(s.Rhs[0], st, ex.typeOf(s.Lhs[0])), ex.typeOf(s.Lhs[0]), st)
								if ex.symElemStore(st, ix, val) {
									return
								}
							}
						}
					}
				}
			}
		}
	}
	var vals []Value
	if len(s.Rhs) == 1 && len(s.Lhs) > 1 {
		v := ex.evalMulti(s.Rhs[0], st, len(s.Lhs))
		vals = v.Vals
	} else {
		for i, r := range s.Rhs {
			var want types.Type
			if s.Tok == token.ASSIGN {
				if id, ok := s.Lhs[i].(*ast.Ident); !ok || id.Name != "_" {
					want = ex.typeOf(s.Lhs[i])
				}
			}
			vals = append(vals, ex.evalTo(r, st, want))
		}
	}
	// resolve all lvalues before storing (Go evaluates operands first)
	type tgt struct {
		lv   LV
		decl types.Object
		skip bool
		typ  types.Type
	}
	tg := make([]tgt, len(s.Lhs))
	for i, l := range s.Lhs {
		if id, ok := l.(*ast.Ident); ok {
			if id.Name == "_" {
				tg[i].skip = true
				continue
			}
			if s.Tok == token.DEFINE {
				if obj, ok := ex.info().Defs[id]; ok && obj != nil {
					tg[i].decl = obj
					tg[i].typ = obj.Type()
					continue
				}
			}
		}
		tg[i].lv = ex.lvalue(l, st)
		tg[i].typ = ex.typeOf(l)
	}
	for i := range s.Lhs {
		if tg[i].skip {
			continue
		}
		v := ex.convertAssign(vals[i], tg[i].typ, st)
		if tg[i].decl != nil {
			ex.declare(st, tg[i].decl, v)
		} else {
			ex.storeLV(st, tg[i].lv, v)
		}
	}
	ex.onAssignUses(s, st)
}

// onAssignUses adds the lemma instances of "on v: use ..." clauses after an assignment to v in
// the function under verification.
func (ex *Exec) onAssignUses(s *ast.AssignStmt, st *State) {
	f := ex.cur()
	if ex.recursing == nil || ex.recursing.fi != f.fi || f.lit != nil || len(ex.frames) != 2 || ex.suppress > 0 {
		return
	}
	for _, c := range ex.recursing.blk.Clauses {
		if c.Kind != "use" || c.Loop != -3 {
			continue
		}
		hit := false
		for _, l := range s.Lhs {
			if id, ok := l.(*ast.Ident); ok && id.Name == c.OnVar {
				hit = true
			}
		}
		if !hit {
			continue
		}
		e, err := ex.prog.CheckExprAt(f.fi.Pkg, s.End(), c.Go)
		if err != nil {
			unsupported("on %s: use %s does not type-check at %s: %v", c.OnVar, c.Text, ex.pos(s.Pos()), err)
		}
		ex.suppress++
		g := ex.evalBool(e, st.fork(st.pc))
		ex.suppress--
		ex.facts = append(ex.facts, g)
		if ex.prog.Axioms[lemmaKey(f.fi.Pkg.Name, c.ID)] {
			ex.assumptions["AXIOM "+lemmaKey(f.fi.Pkg.Name, c.ID)+" (assumed, see the contract file)"] = true
		} else {
			ex.usedContracts["lemma "+lemmaKey(f.fi.Pkg.Name, c.ID)] = true
		}
	}
}

// evalMulti evaluates an expression that yields n values (call, map index, type assert).
func (ex *Exec) evalMulti(e ast.Expr, st *State, n int) *TupleV {
	e = ast.Unparen(e)
	switch x := e.(type) {
	case *ast.IndexExpr:
		// v, ok := m[k]
		if _, isMap := ex.typeOf(x.X).Underlying().(*types.Map); isMap {
			mv := ex.eval(x.X, st)
			k := ex.eval(x.Index, st)
			v, ok := ex.mapGet(st, mv, k, ex.typeOf(x.X).Underlying().(*types.Map))
			return &TupleV{Vals: []Value{v, ok}}
		}
	case *ast.TypeAssertExpr:
		unsupported("comma-ok type assertion at %s", ex.pos(e.Pos()))
	}
	v := ex.eval(e, st)
	tv, ok := v.(*TupleV)
	if !ok || len(tv.Vals) != n {
		unsupported("expected %d values at %s", n, ex.pos(e.Pos()))
	}
	return tv
}

func (ex *Exec) loopClauses(s ast.Stmt) (unroll int, invs []*Clause, havoc []string, blk *Block) {
	unroll, invs, havoc, blk, _ = ex.loopClauses2(s)
	return
}

func (ex *Exec) loopClauses2(s ast.Stmt) (unroll int, invs []*Clause, havoc []string, blk *Block, rangevar string) {
	unroll = -1
	fi := ex.prog.LoopFunc[s]
	if fi == nil {
		return
	}
	ord := ex.prog.LoopOrd[s]
	recv := ""
	if sig := fi.Obj.Type().(*types.Signature); sig.Recv() != nil {
		recv = recvTypeName(sig.Recv().Type())
	}
	name := fi.Decl.Name.Name
	key := funcKey(fi.Pkg.PkgPath, recv, name)
	if name == "init" && fi.Decl.Recv == nil {
		for i, f := range ex.prog.InitFuncs[fi.Pkg.PkgPath] {
			if f == fi {
				key = funcKey(fi.Pkg.PkgPath, "", "init#"+itoa(i))
			}
		}
	}
	blk = ex.prog.Blocks[key]
	if blk == nil {
		return
	}
	for _, c := range blk.Clauses {
		if c.Loop != ord || !c.IsLoop {
			continue
		}
		switch c.Kind {
		case "rangevar":
			rangevar = strings.TrimSpace(c.Text)
		case "unroll":
			unroll = atoi(c.Text)
		case "invariant", "use":
			invs = append(invs, c)
		case "havoc":
			for _, h := range strings.FieldsFunc(c.Text, func(r rune) bool { return r == ',' || r == ' ' }) {
				havoc = append(havoc, h)
			}
		}
	}
	return
}

func (ex *Exec) execFor(s *ast.ForStmt, st *State, label string) *Flow {
	ex.pushScope()
	out := &Flow{}
	if s.Init != nil {
		r := ex.execStmt(s.Init, st)
		st = r.Normal
	}
	unroll, invs, havoc, _ := ex.loopClauses(s)
	if len(invs) > 0 {
		r := ex.execLoopInv(s, s.Cond, s.Body, s.Post, st, label, invs, havoc, false, nil, nil)
		ex.popScope(ex.flowStates(r)...)
		return r
	}
	var exit *State
	cur := st
	iters := 0
	for cur != nil {
		var c *Term
		if s.Cond != nil {
			c = ex.evalBool(s.Cond, cur)
		} else {
			c = ex.ts.True()
		}
		if c.IsFalse() {
			exit = ex.mergeStates(exit, cur)
			break
		}
		symbolic := !c.IsTrue()
		if symbolic {
			bound := unroll
			if bound < 0 {
				bound = ex.loopBound
			}
			if iters >= bound {
				// unwinding assertion: the loop cannot continue
				ex.assert(cur, "unwind", ex.ts.Not(c), s.Pos(), "loop bound "+itoa(bound))
				cur.pc = ex.ts.And(cur.pc, ex.ts.Not(c))
				exit = ex.mergeStates(exit, cur)
				break
			}
		} else if iters >= hardLoopCap || (unroll >= 0 && iters >= unroll && s.Cond == nil) {
			if unroll >= 0 && s.Cond == nil {
				// for { ... } with explicit bound: remaining paths must be infeasible
				ex.assert(cur, "unwind", ex.ts.False(), s.Pos(), "loop bound "+itoa(unroll))
				break
			}
			unsupported("loop at %s exceeds %d iterations", ex.pos(s.Pos()), hardLoopCap)
		}
		var body *State
		if symbolic {
			body = cur.fork(ex.ts.And(cur.pc, c))
			cur.pc = ex.ts.And(cur.pc, ex.ts.Not(c))
			exit = ex.mergeStates(exit, cur)
		} else {
			body = cur
		}
		r := ex.execBlock(s.Body.List, body)
		out.Returns = append(out.Returns, r.Returns...)
		var keepB, keepC []Exit
		if b := ex.mergeExits(r.Breaks, label, &keepB); b != nil {
			exit = ex.mergeStates(exit, b)
		}
		out.Breaks = append(out.Breaks, keepB...)
		next := ex.mergeStates(r.Normal, ex.mergeExits(r.Conts, label, &keepC))
		out.Conts = append(out.Conts, keepC...)
		if next != nil && s.Post != nil {
			pr := ex.execStmt(s.Post, next)
			next = pr.Normal
		}
		cur = next
		iters++
	}
	out.Normal = exit
	ex.popScope(ex.flowStates(out)...)
	return out
}

func (ex *Exec) execRange(s *ast.RangeStmt, st *State, label string) *Flow {
	ex.pushScope()
	out := &Flow{}
	xt := ex.typeOf(s.X).Underlying()
	var symRange *SymSliceV
	var elems []Value
	intRange := false
	var n int
	switch t := xt.(type) {
	case *types.Array:
		v := ex.eval(s.X, st)
		av, ok := v.(*ArrayV)
		if !ok {
			unsupported("range over %T at %s", v, ex.pos(s.Pos()))
		}
		elems = av.Elems
		n = len(elems)
	case *types.Slice:
		v := ex.eval(s.X, st)
		switch sv := v.(type) {
		case *SliceV:
			n = sv.Len
			if !sv.Nil && n > 0 {
				back := ex.load(st, sv.Loc).(*ArrayV)
				elems = back.Elems[sv.Off : sv.Off+sv.Len]
			}
		case *SymSliceV:
			_, invs, _, _ := ex.loopClauses(s)
			if mx, ok := constLeavesMax(sv.Len); ok && mx <= 64 && len(invs) == 0 {
				// the length is one of a few constants (slices of different length joined at a
				// merge): unroll to the largest, each iteration guarded by i < len
				n = mx
				symRange = sv
				break
			}
			r := ex.execRangeSym(s, st, label, sv)
			ex.popScope(ex.flowStates(r)...)
			return r
		default:
			unsupported("range over %T at %s", v, ex.pos(s.Pos()))
		}
	case *types.Pointer:
		v := ex.eval(s.X, st).(*PtrV)
		av := ex.getPath(ex.load(st, v.Loc), v.Path, st, s.Pos()).(*ArrayV)
		elems = av.Elems
		n = len(elems)
	case *types.Basic:
		if _, _, ok := intInfo(t); ok {
			v := ex.eval(s.X, st).(*Term)
			if v.Op != OpConst {
				unsupported("range over symbolic integer at %s", ex.pos(s.Pos()))
			}
			n = int(v.BV)
			intRange = true
		} else if isString(t) {
			sv := ex.eval(s.X, st).(*StrV)
			if !sv.Concrete {
				unsupported("range over symbolic string at %s", ex.pos(s.Pos()))
			}
			r := ex.execRangeString(s, st, label, sv.S)
			ex.popScope(ex.flowStates(r)...)
			return r
		} else {
			unsupported("range over %s at %s", t, ex.pos(s.Pos()))
		}
	case *types.Map:
		if ex.rangeMapCopy(s, st) {
			ex.popScope(st)
			return &Flow{Normal: st}
		}
		unsupported("range over map at %s (iteration order is not modelled)", ex.pos(s.Pos()))
	default:
		unsupported("range over %s at %s", xt, ex.pos(s.Pos()))
	}
	var exit *State
	cur := st
	for i := 0; i < n && cur != nil; i++ {
		if symRange != nil {
			g := ex.ts.BVCmp(OpBVSlt, ex.ts.BV(uint64(i), 64), symRange.Len)
			if done := cur.fork(ex.ts.And(cur.pc, ex.ts.Not(g))); !done.pc.IsFalse() {
				exit = ex.mergeStates(exit, done)
			}
			cur.pc = ex.ts.And(cur.pc, g)
			if cur.pc.IsFalse() {
				cur = nil
				break
			}
		}
		ex.pushScope()
		bind := func(e ast.Expr, v Value) {
			if e == nil {
				return
			}
			id, ok := e.(*ast.Ident)
			if ok && id.Name == "_" {
				return
			}
			if s.Tok == token.DEFINE {
				ex.declare(cur, ex.info().Defs[id], v)
			} else {
				ex.storeLV(cur, ex.lvalue(e, cur), v)
			}
		}
		var kt types.Type = types.Typ[types.Int]
		if s.Key != nil {
			if id, ok := s.Key.(*ast.Ident); !ok || id.Name != "_" {
				if s.Tok == token.DEFINE {
					kt = ex.info().Defs[s.Key.(*ast.Ident)].Type()
				} else {
					kt = ex.typeOf(s.Key)
				}
			}
		}
		kw, _, _ := intInfo(kt)
		bind(s.Key, ex.ts.BV(uint64(i), kw))
		if symRange != nil && s.Value != nil {
			bind(s.Value, ex.symSliceElem(cur, symRange, ex.ts.BV(uint64(i), 64)))
		} else if !intRange && s.Value != nil {
			bind(s.Value, elems[i])
		}
		r := ex.execBlock(s.Body.List, cur)
		out.Returns = append(out.Returns, r.Returns...)
		var keepB, keepC []Exit
		if b := ex.mergeExits(r.Breaks, label, &keepB); b != nil {
			exit = ex.mergeStates(exit, b)
		}
		out.Breaks = append(out.Breaks, keepB...)
		next := ex.mergeStates(r.Normal, ex.mergeExits(r.Conts, label, &keepC))
		out.Conts = append(out.Conts, keepC...)
		ex.popScope(next)
		cur = next
	}
	out.Normal = ex.mergeStates(exit, cur)
	ex.popScope(ex.flowStates(out)...)
	return out
}

func (ex *Exec) execRangeString(s *ast.RangeStmt, st *State, label string, str string) *Flow {
	out := &Flow{}
	var exit *State
	cur := st
	for i, r := range str {
		if cur == nil {
			break
		}
		ex.pushScope()
		if id, ok := s.Key.(*ast.Ident); ok && id.Name != "_" && s.Tok == token.DEFINE {
			ex.declare(cur, ex.info().Defs[id], ex.ts.BV(uint64(i), 64))
		}
		if s.Value != nil {
			if id, ok := s.Value.(*ast.Ident); ok && id.Name != "_" && s.Tok == token.DEFINE {
				ex.declare(cur, ex.info().Defs[id], ex.ts.BV(uint64(r), 32))
			}
		}
		rr := ex.execBlock(s.Body.List, cur)
		out.Returns = append(out.Returns, rr.Returns...)
		var keepB, keepC []Exit
		if b := ex.mergeExits(rr.Breaks, label, &keepB); b != nil {
			exit = ex.mergeStates(exit, b)
		}
		out.Breaks = append(out.Breaks, keepB...)
		next := ex.mergeStates(rr.Normal, ex.mergeExits(rr.Conts, label, &keepC))
		out.Conts = append(out.Conts, keepC...)
		ex.popScope(next)
		cur = next
	}
	out.Normal = ex.mergeStates(exit, cur)
	return out
}

func (ex *Exec) execSwitch(s *ast.SwitchStmt, st *State, label string) *Flow {
	ex.pushScope()
	out := &Flow{}
	if s.Init != nil {
		r := ex.execStmt(s.Init, st)
		st = r.Normal
	}
	var tag Value
	var tagT types.Type
	if s.Tag != nil {
		tag = ex.eval(s.Tag, st)
		tagT = ex.typeOf(s.Tag)
	}
	var exit *State
	rest := st // states where no previous case matched
	var deflt *ast.CaseClause
	run := func(cc *ast.CaseClause, body *State) {
		r := ex.execBlock(cc.Body, body)
		for _, stt := range cc.Body {
			if b, ok := stt.(*ast.BranchStmt); ok && b.Tok == token.FALLTHROUGH {
				unsupported("fallthrough at %s", ex.pos(b.Pos()))
			}
		}
		out.Returns = append(out.Returns, r.Returns...)
		out.Conts = append(out.Conts, r.Conts...)
		var keep []Exit
		if b := ex.mergeExits(r.Breaks, label, &keep); b != nil {
			exit = ex.mergeStates(exit, b)
		}
		out.Breaks = append(out.Breaks, keep...)
		exit = ex.mergeStates(exit, r.Normal)
	}
	for _, c := range s.Body.List {
		cc := c.(*ast.CaseClause)
		if cc.List == nil {
			deflt = cc
			continue
		}
		if rest == nil {
			break
		}
		cond := ex.ts.False()
		for _, e := range cc.List {
			var c1 *Term
			if tag != nil {
				v := ex.evalTo(e, rest, tagT)
				c1 = ex.eqValue(tag, ex.convertAssign(v, tagT, rest))
			} else {
				c1 = ex.evalBool(e, rest)
			}
			cond = ex.ts.Or(cond, c1)
		}
		if cond.IsFalse() {
			continue
		}
		if cond.IsTrue() {
			run(cc, rest)
			rest = nil
			break
		}
		body := rest.fork(ex.ts.And(rest.pc, cond))
		rest.pc = ex.ts.And(rest.pc, ex.ts.Not(cond))
		run(cc, body)
	}
	if rest != nil {
		if deflt != nil {
			run(deflt, rest)
		} else {
			exit = ex.mergeStates(exit, rest)
		}
	}
	out.Normal = exit
	ex.popScope(ex.flowStates(out)...)
	return out
}

func itoa(i int) string {
	return strings.TrimSpace(strings.Replace(strings.Replace(fmtInt(i), "\n", "", -1), " ", "", -1))
}

// constLeavesMax: t is an if-then-else tree over constants; returns the largest leaf.
func constLeavesMax(t *Term) (int, bool) {
	switch t.Op {
	case OpConst:
		if t.BV > 1<<20 {
			return 0, false
		}
		return int(t.BV), true
	case OpIte:
		a, ok1 := constLeavesMax(t.Args[1])
		b, ok2 := constLeavesMax(t.Args[2])
		if ok1 && ok2 {
			return max(a, b), true
		}
	}
	return 0, false
}
