package main

// Term DAG with hash-consing and constant folding. All executable Go integers are
// bit-vectors of their true width (<= 64); float32/float64 are SMT floating point;
// ghost counts may use SMT Int.

import (
	"fmt"
	"math"
	"math/bits"
	"sort"
	"strings"
	"sync"
)

type SortKind int

const (
	SBool SortKind = iota
	SBV
	SFP32
	SFP64
	SInt
	SArray
	SUnint
)

type Sort struct {
	Kind      SortKind
	W         int
	Idx, Elem *Sort
	Name      string
}

var (
	BoolSort = &Sort{Kind: SBool}
	FP32Sort = &Sort{Kind: SFP32}
	FP64Sort = &Sort{Kind: SFP64}
	IntSort  = &Sort{Kind: SInt}
	bvSorts  = map[int]*Sort{}
	arrSorts = map[string]*Sort{}
	unSorts  = map[string]*Sort{}
)

var sortMu sync.Mutex

func BVSort(w int) *Sort {
	sortMu.Lock()
	defer sortMu.Unlock()
	if s, ok := bvSorts[w]; ok {
		return s
	}
	s := &Sort{Kind: SBV, W: w}
	bvSorts[w] = s
	return s
}

func ArraySort(idx, elem *Sort) *Sort {
	sortMu.Lock()
	defer sortMu.Unlock()
	k := idx.String() + "->" + elem.String()
	if s, ok := arrSorts[k]; ok {
		return s
	}
	s := &Sort{Kind: SArray, Idx: idx, Elem: elem}
	arrSorts[k] = s
	return s
}

func UnintSort(name string) *Sort {
	sortMu.Lock()
	defer sortMu.Unlock()
	if s, ok := unSorts[name]; ok {
		return s
	}
	s := &Sort{Kind: SUnint, Name: name}
	unSorts[name] = s
	return s
}

func (s *Sort) String() string {
	switch s.Kind {
	case SBool:
		return "Bool"
	case SBV:
		return fmt.Sprintf("(_ BitVec %d)", s.W)
	case SFP32:
		return "(_ FloatingPoint 8 24)"
	case SFP64:
		return "(_ FloatingPoint 11 53)"
	case SInt:
		return "Int"
	case SArray:
		return fmt.Sprintf("(Array %s %s)", s.Idx, s.Elem)
	case SUnint:
		return s.Name
	}
	return "?"
}

type Op int

const (
	OpConst Op = iota // BV / Bool / Int const
	OpFPConst
	OpVar
	OpNot
	OpAnd
	OpOr
	OpIte
	OpEq
	OpBVAdd
	OpBVSub
	OpBVMul
	OpBVUDiv
	OpBVSDiv
	OpBVURem
	OpBVSRem
	OpBVAnd
	OpBVOr
	OpBVXor
	OpBVNot
	OpBVNeg
	OpBVShl
	OpBVLshr
	OpBVAshr
	OpBVUlt
	OpBVUle
	OpBVSlt
	OpBVSle
	OpConcat
	OpExtract
	OpZeroExt
	OpSignExt
	OpFPNeg
	OpFPAdd
	OpFPSub
	OpFPMul
	OpFPDiv
	OpFPLt
	OpFPLe
	OpFPEq // IEEE equality
	OpFPIsNaN
	OpFPIsInf
	OpFPFromSBV // signed bv -> fp
	OpFPFromUBV
	OpFPToSBV // fp -> signed bv (RTZ)
	OpFPToFP  // fp -> fp conversion
	OpFPToBits
	OpFPFromBits
	OpSelect
	OpStore
	OpApp // uninterpreted function
	OpConstArray
	OpForall // Args[0] = bound variable (OpVar), Args[1] = body
	OpIntAdd
	OpIntSub
	OpIntMul
	OpIntLe
	OpIntLt
)

var opNames = map[Op]string{
	OpNot: "not", OpAnd: "and", OpOr: "or", OpIte: "ite", OpEq: "=",
	OpBVAdd: "bvadd", OpBVSub: "bvsub", OpBVMul: "bvmul", OpBVUDiv: "bvudiv", OpBVSDiv: "bvsdiv",
	OpBVURem: "bvurem", OpBVSRem: "bvsrem", OpBVAnd: "bvand", OpBVOr: "bvor", OpBVXor: "bvxor",
	OpBVNot: "bvnot", OpBVNeg: "bvneg", OpBVShl: "bvshl", OpBVLshr: "bvlshr", OpBVAshr: "bvashr",
	OpBVUlt: "bvult", OpBVUle: "bvule", OpBVSlt: "bvslt", OpBVSle: "bvsle", OpConcat: "concat",
	OpFPNeg: "fp.neg", OpFPLt: "fp.lt", OpFPLe: "fp.leq", OpFPEq: "fp.eq", OpFPIsNaN: "fp.isNaN", OpFPIsInf: "fp.isInfinite",
	OpSelect: "select", OpStore: "store",
	OpIntAdd: "+", OpIntSub: "-", OpIntMul: "*", OpIntLe: "<=", OpIntLt: "<",
}

type Term struct {
	Op   Op
	Sort *Sort
	Args []*Term
	BV   uint64 // const payload (also bool 0/1, Int as int64)
	Name string // var / app name
	I, J int    // extract hi lo; ext amount
	id   int
}

type termKey struct {
	op   Op
	sort *Sort
	a0   int
	a1   int
	a2   int
	bv   uint64
	name string
	i, j int
	rest string
}

type TermStore struct {
	tab   map[termKey]*Term
	next  int
	fresh int
	// declared symbols: vars and uninterpreted functions
	decls map[string]*Decl
}

type Decl struct {
	Name string
	Args []*Sort
	Ret  *Sort
}

func NewTermStore() *TermStore {
	return &TermStore{tab: map[termKey]*Term{}, decls: map[string]*Decl{}}
}

func (ts *TermStore) mk(t *Term) *Term {
	k := termKey{op: t.Op, sort: t.Sort, bv: t.BV, name: t.Name, i: t.I, j: t.J, a0: -1, a1: -1, a2: -1}
	if len(t.Args) > 0 {
		k.a0 = t.Args[0].id
	}
	if len(t.Args) > 1 {
		k.a1 = t.Args[1].id
	}
	if len(t.Args) > 2 {
		k.a2 = t.Args[2].id
	}
	if len(t.Args) > 3 {
		var sb strings.Builder
		for _, a := range t.Args[3:] {
			fmt.Fprintf(&sb, "%d,", a.id)
		}
		k.rest = sb.String()
	}
	if e, ok := ts.tab[k]; ok {
		return e
	}
	ts.next++
	t.id = ts.next
	ts.tab[k] = t
	return t
}

func mask(w int) uint64 {
	if w >= 64 {
		return ^uint64(0)
	}
	return (uint64(1) << uint(w)) - 1
}

func (ts *TermStore) BV(v uint64, w int) *Term {
	return ts.mk(&Term{Op: OpConst, Sort: BVSort(w), BV: v & mask(w)})
}

func (ts *TermStore) Bool(b bool) *Term {
	v := uint64(0)
	if b {
		v = 1
	}
	return ts.mk(&Term{Op: OpConst, Sort: BoolSort, BV: v})
}

func (ts *TermStore) Int(v int64) *Term {
	return ts.mk(&Term{Op: OpConst, Sort: IntSort, BV: uint64(v)})
}

func (ts *TermStore) FP32(f float32) *Term {
	return ts.mk(&Term{Op: OpFPConst, Sort: FP32Sort, BV: uint64(math.Float32bits(f))})
}

func (ts *TermStore) FP64(f float64) *Term {
	return ts.mk(&Term{Op: OpFPConst, Sort: FP64Sort, BV: math.Float64bits(f)})
}

func (ts *TermStore) True() *Term  { return ts.Bool(true) }
func (ts *TermStore) False() *Term { return ts.Bool(false) }

func (t *Term) IsConst() bool { return t.Op == OpConst || t.Op == OpFPConst }
func (t *Term) IsTrue() bool  { return t.Op == OpConst && t.Sort == BoolSort && t.BV == 1 }
func (t *Term) IsFalse() bool { return t.Op == OpConst && t.Sort == BoolSort && t.BV == 0 }

// Var declares (or returns) a named variable.
func (ts *TermStore) Var(name string, s *Sort) *Term {
	if d, ok := ts.decls[name]; ok {
		if d.Ret != s || len(d.Args) != 0 {
			panic("redeclared var with different sort: " + name)
		}
	} else {
		ts.decls[name] = &Decl{Name: name, Ret: s}
	}
	return ts.mk(&Term{Op: OpVar, Sort: s, Name: name})
}

func (ts *TermStore) Fresh(prefix string, s *Sort) *Term {
	ts.fresh++
	return ts.Var(fmt.Sprintf("%s!%d", sanitize(prefix), ts.fresh), s)
}

func sanitize(s string) string {
	var sb strings.Builder
	for _, r := range s {
		if (r >= 'a' && r <= 'z') || (r >= 'A' && r <= 'Z') || (r >= '0' && r <= '9') || r == '_' || r == '.' || r == '!' {
			sb.WriteRune(r)
		} else {
			sb.WriteRune('_')
		}
	}
	return sb.String()
}

func (ts *TermStore) App(name string, ret *Sort, args ...*Term) *Term {
	if d, ok := ts.decls[name]; ok {
		if d.Ret != ret || len(d.Args) != len(args) {
			panic("redeclared function with different signature: " + name)
		}
	} else {
		d := &Decl{Name: name, Ret: ret}
		for _, a := range args {
			d.Args = append(d.Args, a.Sort)
		}
		ts.decls[name] = d
	}
	if len(args) == 0 {
		return ts.mk(&Term{Op: OpVar, Sort: ret, Name: name})
	}
	return ts.mk(&Term{Op: OpApp, Sort: ret, Name: name, Args: args})
}

func (ts *TermStore) Not(a *Term) *Term {
	if a.IsConst() {
		return ts.Bool(a.BV == 0)
	}
	if a.Op == OpNot {
		return a.Args[0]
	}
	return ts.mk(&Term{Op: OpNot, Sort: BoolSort, Args: []*Term{a}})
}

func (ts *TermStore) And(a, b *Term) *Term {
	if a.IsFalse() || b.IsFalse() {
		return ts.False()
	}
	if a.IsTrue() {
		return b
	}
	if b.IsTrue() {
		return a
	}
	if a == b {
		return a
	}
	if ts.Not(a) == b {
		return ts.False()
	}
	// absorb: (x and y) and y
	if a.Op == OpAnd && (a.Args[0] == b || a.Args[1] == b) {
		return a
	}
	if b.Op == OpAnd && (b.Args[0] == a || b.Args[1] == a) {
		return b
	}
	return ts.mk(&Term{Op: OpAnd, Sort: BoolSort, Args: []*Term{a, b}})
}

func (ts *TermStore) AndN(xs ...*Term) *Term {
	r := ts.True()
	for _, x := range xs {
		r = ts.And(r, x)
	}
	return r
}

func (ts *TermStore) Or(a, b *Term) *Term {
	if a.IsTrue() || b.IsTrue() {
		return ts.True()
	}
	if a.IsFalse() {
		return b
	}
	if b.IsFalse() {
		return a
	}
	if a == b {
		return a
	}
	if ts.Not(a) == b {
		return ts.True()
	}
	// (p and c) or (p and not c) == p
	if a.Op == OpAnd && b.Op == OpAnd {
		for i := 0; i < 2; i++ {
			for j := 0; j < 2; j++ {
				if a.Args[i] == b.Args[j] && ts.Not(a.Args[1-i]) == b.Args[1-j] {
					return a.Args[i]
				}
			}
		}
	}
	// p or (p and c) == p
	if b.Op == OpAnd && (b.Args[0] == a || b.Args[1] == a) {
		return a
	}
	if a.Op == OpAnd && (a.Args[0] == b || a.Args[1] == b) {
		return b
	}
	// and-inverter form: keeps syntactic identities such as not(a or b) == (not a and not b)
	return ts.Not(ts.mk(&Term{Op: OpAnd, Sort: BoolSort, Args: []*Term{ts.Not(a), ts.Not(b)}}))
}

func (ts *TermStore) Implies(a, b *Term) *Term { return ts.Or(ts.Not(a), b) }

func (ts *TermStore) Ite(c, a, b *Term) *Term {
	if c.IsTrue() {
		return a
	}
	if c.IsFalse() {
		return b
	}
	if a == b {
		return a
	}
	if a.Sort != b.Sort {
		panic(fmt.Sprintf("ite sort mismatch %s vs %s", a.Sort, b.Sort))
	}
	if a.Sort == BoolSort {
		if a.IsTrue() && b.IsFalse() {
			return c
		}
		if a.IsFalse() && b.IsTrue() {
			return ts.Not(c)
		}
		if a.IsTrue() {
			return ts.Or(c, b)
		}
		if a.IsFalse() {
			return ts.And(ts.Not(c), b)
		}
		if b.IsTrue() {
			return ts.Or(ts.Not(c), a)
		}
		if b.IsFalse() {
			return ts.And(c, a)
		}
	}
	if c.Op == OpNot {
		return ts.Ite(c.Args[0], b, a)
	}
	// ite(c, x ^ k, x) = x ^ ite(c, k, 0)   (incremental xor updates under a condition)
	if a.Op == OpBVXor && (a.Args[0] == b || a.Args[1] == b) {
		k := a.Args[1]
		if a.Args[1] == b {
			k = a.Args[0]
		}
		return ts.BVBin(OpBVXor, b, ts.Ite(c, k, ts.BV(0, b.Sort.W)))
	}
	if b.Op == OpBVXor && (b.Args[0] == a || b.Args[1] == a) {
		k := b.Args[1]
		if b.Args[1] == a {
			k = b.Args[0]
		}
		return ts.BVBin(OpBVXor, a, ts.Ite(c, ts.BV(0, a.Sort.W), k))
	}
	// ite(c, x, ite(c, y, z)) = ite(c, x, z)
	if b.Op == OpIte && b.Args[0] == c {
		return ts.Ite(c, a, b.Args[2])
	}
	if a.Op == OpIte && a.Args[0] == c {
		return ts.Ite(c, a.Args[1], b)
	}
	return ts.mk(&Term{Op: OpIte, Sort: a.Sort, Args: []*Term{c, a, b}})
}

func (ts *TermStore) Eq(a, b *Term) *Term {
	if a.Sort != b.Sort {
		panic(fmt.Sprintf("eq sort mismatch %s vs %s (%s / %s)", a.Sort, b.Sort, ts.Show(a), ts.Show(b)))
	}
	if a == b {
		if a.Sort.Kind != SFP32 && a.Sort.Kind != SFP64 {
			return ts.True()
		}
	}
	if a.Op == OpConst && b.Op == OpConst {
		return ts.Bool(a.BV == b.BV)
	}
	if a.Sort == BoolSort {
		if a.IsTrue() {
			return b
		}
		if b.IsTrue() {
			return a
		}
		if a.IsFalse() {
			return ts.Not(b)
		}
		if b.IsFalse() {
			return ts.Not(a)
		}
	}
	// eq(ite(c, k1, k2), k) with constants
	if b.Op == OpConst && a.Op == OpIte && a.Args[1].Op == OpConst && a.Args[2].Op == OpConst {
		return ts.Ite(a.Args[0], ts.Bool(a.Args[1].BV == b.BV), ts.Bool(a.Args[2].BV == b.BV))
	}
	if a.Op == OpConst && b.Op == OpIte && b.Args[1].Op == OpConst && b.Args[2].Op == OpConst {
		return ts.Eq(b, a)
	}
	if a.id > b.id {
		a, b = b, a
	}
	return ts.mk(&Term{Op: OpEq, Sort: BoolSort, Args: []*Term{a, b}})
}

func signExt(v uint64, w int) int64 {
	if w >= 64 {
		return int64(v)
	}
	if v&(uint64(1)<<uint(w-1)) != 0 {
		return int64(v | ^mask(w))
	}
	return int64(v)
}

// BVBin builds a binary bit-vector operation with folding.
func (ts *TermStore) BVBin(op Op, a, b *Term) *Term {
	if a.Sort != b.Sort || a.Sort.Kind != SBV {
		panic(fmt.Sprintf("bvbin %s sort mismatch %s vs %s", opNames[op], a.Sort, b.Sort))
	}
	w := a.Sort.W
	if a.Op == OpConst && b.Op == OpConst {
		x, y := a.BV, b.BV
		switch op {
		case OpBVAdd:
			return ts.BV(x+y, w)
		case OpBVSub:
			return ts.BV(x-y, w)
		case OpBVMul:
			return ts.BV(x*y, w)
		case OpBVAnd:
			return ts.BV(x&y, w)
		case OpBVOr:
			return ts.BV(x|y, w)
		case OpBVXor:
			return ts.BV(x^y, w)
		case OpBVShl:
			if y >= uint64(w) {
				return ts.BV(0, w)
			}
			return ts.BV(x<<y, w)
		case OpBVLshr:
			if y >= uint64(w) {
				return ts.BV(0, w)
			}
			return ts.BV(x>>y, w)
		case OpBVAshr:
			sx := signExt(x, w)
			if y >= uint64(w) {
				y = uint64(w - 1)
			}
			return ts.BV(uint64(sx>>y), w)
		case OpBVUDiv:
			if y == 0 {
				return ts.BV(mask(w), w)
			}
			return ts.BV(x/y, w)
		case OpBVURem:
			if y == 0 {
				return ts.BV(x, w)
			}
			return ts.BV(x%y, w)
		case OpBVSDiv:
			if y != 0 {
				sx, sy := signExt(x, w), signExt(y, w)
				if !(sx == math.MinInt64 && sy == -1) {
					return ts.BV(uint64(sx/sy), w)
				}
				return ts.BV(uint64(sx), w)
			}
		case OpBVSRem:
			if y != 0 {
				sx, sy := signExt(x, w), signExt(y, w)
				if !(sx == math.MinInt64 && sy == -1) {
					return ts.BV(uint64(sx%sy), w)
				}
				return ts.BV(0, w)
			}
		}
	}
	// identities
	switch op {
	case OpBVAdd, OpBVOr, OpBVXor:
		if a.Op == OpConst && a.BV == 0 {
			return b
		}
		if b.Op == OpConst && b.BV == 0 {
			return a
		}
		if op == OpBVXor && a == b {
			return ts.BV(0, w)
		}
		if op == OpBVOr && a == b {
			return a
		}
	case OpBVSub, OpBVShl, OpBVLshr, OpBVAshr:
		if b.Op == OpConst && b.BV == 0 {
			return a
		}
		if op == OpBVSub && a == b {
			return ts.BV(0, w)
		}
		if op != OpBVSub && a.Op == OpConst && a.BV == 0 {
			return a
		}
	case OpBVAnd:
		if a.Op == OpConst && a.BV == 0 {
			return a
		}
		if b.Op == OpConst && b.BV == 0 {
			return b
		}
		if a.Op == OpConst && a.BV == mask(w) {
			return b
		}
		if b.Op == OpConst && b.BV == mask(w) {
			return a
		}
		if a == b {
			return a
		}
	case OpBVMul:
		if a.Op == OpConst && a.BV == 1 {
			return b
		}
		if b.Op == OpConst && b.BV == 1 {
			return a
		}
		if (a.Op == OpConst && a.BV == 0) || (b.Op == OpConst && b.BV == 0) {
			return ts.BV(0, w)
		}
	}
	return ts.mk(&Term{Op: op, Sort: a.Sort, Args: []*Term{a, b}})
}

func (ts *TermStore) BVUn(op Op, a *Term) *Term {
	w := a.Sort.W
	if a.Op == OpConst {
		switch op {
		case OpBVNot:
			return ts.BV(^a.BV, w)
		case OpBVNeg:
			return ts.BV(-a.BV, w)
		}
	}
	if a.Op == op {
		return a.Args[0]
	}
	return ts.mk(&Term{Op: op, Sort: a.Sort, Args: []*Term{a}})
}

func constIte(t *Term) bool {
	return t.Op == OpIte && t.Args[1].Op == OpConst && t.Args[2].Op == OpConst
}

func (ts *TermStore) BVCmp(op Op, a, b *Term) *Term {
	if a.Sort != b.Sort || a.Sort.Kind != SBV {
		panic(fmt.Sprintf("bvcmp sort mismatch %s vs %s", a.Sort, b.Sort))
	}
	w := a.Sort.W
	if constIte(a) && b.Op == OpConst {
		return ts.Ite(a.Args[0], ts.BVCmp(op, a.Args[1], b), ts.BVCmp(op, a.Args[2], b))
	}
	if constIte(b) && a.Op == OpConst {
		return ts.Ite(b.Args[0], ts.BVCmp(op, a, b.Args[1]), ts.BVCmp(op, a, b.Args[2]))
	}
	if a.Op == OpConst && b.Op == OpConst {
		switch op {
		case OpBVUlt:
			return ts.Bool(a.BV < b.BV)
		case OpBVUle:
			return ts.Bool(a.BV <= b.BV)
		case OpBVSlt:
			return ts.Bool(signExt(a.BV, w) < signExt(b.BV, w))
		case OpBVSle:
			return ts.Bool(signExt(a.BV, w) <= signExt(b.BV, w))
		}
	}
	if a == b {
		return ts.Bool(op == OpBVUle || op == OpBVSle)
	}
	return ts.mk(&Term{Op: op, Sort: BoolSort, Args: []*Term{a, b}})
}

func (ts *TermStore) Extract(hi, lo int, a *Term) *Term {
	if lo == 0 && hi == a.Sort.W-1 {
		return a
	}
	if a.Op == OpConst {
		return ts.BV(a.BV>>uint(lo), hi-lo+1)
	}
	if constIte(a) {
		return ts.Ite(a.Args[0], ts.Extract(hi, lo, a.Args[1]), ts.Extract(hi, lo, a.Args[2]))
	}
	if a.Op == OpZeroExt && hi < a.Args[0].Sort.W {
		return ts.Extract(hi, lo, a.Args[0])
	}
	if a.Op == OpSignExt && hi < a.Args[0].Sort.W {
		return ts.Extract(hi, lo, a.Args[0])
	}
	return ts.mk(&Term{Op: OpExtract, Sort: BVSort(hi - lo + 1), Args: []*Term{a}, I: hi, J: lo})
}

func (ts *TermStore) ZeroExt(n int, a *Term) *Term {
	if n == 0 {
		return a
	}
	if a.Op == OpConst {
		return ts.BV(a.BV, a.Sort.W+n)
	}
	if constIte(a) {
		return ts.Ite(a.Args[0], ts.ZeroExt(n, a.Args[1]), ts.ZeroExt(n, a.Args[2]))
	}
	return ts.mk(&Term{Op: OpZeroExt, Sort: BVSort(a.Sort.W + n), Args: []*Term{a}, I: n})
}

func (ts *TermStore) SignExt(n int, a *Term) *Term {
	if n == 0 {
		return a
	}
	if a.Op == OpConst {
		return ts.BV(uint64(signExt(a.BV, a.Sort.W)), a.Sort.W+n)
	}
	if constIte(a) {
		return ts.Ite(a.Args[0], ts.SignExt(n, a.Args[1]), ts.SignExt(n, a.Args[2]))
	}
	return ts.mk(&Term{Op: OpSignExt, Sort: BVSort(a.Sort.W + n), Args: []*Term{a}, I: n})
}

// Resize converts a bit-vector to width w with Go conversion semantics.
func (ts *TermStore) Resize(a *Term, w int, signed bool) *Term {
	cw := a.Sort.W
	switch {
	case w == cw:
		return a
	case w < cw:
		return ts.Extract(w-1, 0, a)
	case signed:
		return ts.SignExt(w-cw, a)
	default:
		return ts.ZeroExt(w-cw, a)
	}
}

func (ts *TermStore) Select(arr, idx *Term) *Term {
	if arr.Sort.Kind != SArray || arr.Sort.Idx != idx.Sort {
		panic("select sort mismatch")
	}
	// read over write with constant indices
	for arr.Op == OpStore {
		if arr.Args[1] == idx {
			return arr.Args[2]
		}
		if arr.Args[1].Op == OpConst && idx.Op == OpConst {
			arr = arr.Args[0]
			continue
		}
		break
	}
	if arr.Op == OpConstArray {
		return arr.Args[0]
	}
	return ts.mk(&Term{Op: OpSelect, Sort: arr.Sort.Elem, Args: []*Term{arr, idx}})
}

func (ts *TermStore) Forall(v, body *Term) *Term {
	if body.IsTrue() {
		return body
	}
	return ts.mk(&Term{Op: OpForall, Sort: BoolSort, Args: []*Term{v, body}})
}

func (ts *TermStore) ConstArray(s *Sort, v *Term) *Term {
	return ts.mk(&Term{Op: OpConstArray, Sort: s, Args: []*Term{v}})
}

func (ts *TermStore) Store(arr, idx, v *Term) *Term {
	if arr.Sort.Kind != SArray || arr.Sort.Idx != idx.Sort || arr.Sort.Elem != v.Sort {
		panic("store sort mismatch")
	}
	return ts.mk(&Term{Op: OpStore, Sort: arr.Sort, Args: []*Term{arr, idx, v}})
}

func (ts *TermStore) FPUn(op Op, a *Term) *Term {
	if a.Op == OpFPConst && op == OpFPNeg {
		if a.Sort == FP32Sort {
			return ts.FP32(-math.Float32frombits(uint32(a.BV)))
		}
		return ts.FP64(-math.Float64frombits(a.BV))
	}
	s := a.Sort
	if op == OpFPIsNaN || op == OpFPIsInf {
		s = BoolSort
		if a.Op == OpFPConst {
			var f float64
			if a.Sort == FP32Sort {
				f = float64(math.Float32frombits(uint32(a.BV)))
			} else {
				f = math.Float64frombits(a.BV)
			}
			if op == OpFPIsNaN {
				return ts.Bool(math.IsNaN(f))
			}
			return ts.Bool(math.IsInf(f, 0))
		}
	}
	return ts.mk(&Term{Op: op, Sort: s, Args: []*Term{a}})
}

func fpVal(a *Term) float64 {
	if a.Sort == FP32Sort {
		return float64(math.Float32frombits(uint32(a.BV)))
	}
	return math.Float64frombits(a.BV)
}

func (ts *TermStore) fpMk(s *Sort, f float64) *Term {
	if s == FP32Sort {
		return ts.FP32(float32(f))
	}
	return ts.FP64(f)
}

func (ts *TermStore) FPBin(op Op, a, b *Term) *Term {
	if a.Sort != b.Sort {
		panic("fpbin sort mismatch")
	}
	if a.Op == OpFPConst && b.Op == OpFPConst {
		x, y := fpVal(a), fpVal(b)
		if a.Sort == FP32Sort {
			x32, y32 := float32(x), float32(y)
			switch op {
			case OpFPAdd:
				return ts.FP32(x32 + y32)
			case OpFPSub:
				return ts.FP32(x32 - y32)
			case OpFPMul:
				return ts.FP32(x32 * y32)
			case OpFPDiv:
				return ts.FP32(x32 / y32)
			}
		} else {
			switch op {
			case OpFPAdd:
				return ts.FP64(x + y)
			case OpFPSub:
				return ts.FP64(x - y)
			case OpFPMul:
				return ts.FP64(x * y)
			case OpFPDiv:
				return ts.FP64(x / y)
			}
		}
		switch op {
		case OpFPLt:
			return ts.Bool(x < y)
		case OpFPLe:
			return ts.Bool(x <= y)
		case OpFPEq:
			return ts.Bool(x == y)
		}
	}
	s := a.Sort
	if op == OpFPLt || op == OpFPLe || op == OpFPEq {
		s = BoolSort
	}
	return ts.mk(&Term{Op: op, Sort: s, Args: []*Term{a, b}})
}

// FPConv builds conversions involving floating point.
func (ts *TermStore) FPConv(op Op, a *Term, to *Sort) *Term {
	if a.IsConst() {
		switch op {
		case OpFPFromSBV:
			return ts.fpMk(to, float64(signExt(a.BV, a.Sort.W)))
		case OpFPFromUBV:
			return ts.fpMk(to, float64(a.BV))
		case OpFPToFP:
			return ts.fpMk(to, fpVal(a))
		case OpFPToSBV:
			f := fpVal(a)
			if !math.IsNaN(f) && !math.IsInf(f, 0) && math.Abs(f) < 9e18 {
				return ts.BV(uint64(int64(f)), to.W)
			}
		}
	}
	return ts.mk(&Term{Op: op, Sort: to, Args: []*Term{a}})
}

func (ts *TermStore) IntBin(op Op, a, b *Term) *Term {
	if a.Op == OpConst && b.Op == OpConst {
		x, y := int64(a.BV), int64(b.BV)
		switch op {
		case OpIntAdd:
			return ts.Int(x + y)
		case OpIntSub:
			return ts.Int(x - y)
		case OpIntMul:
			return ts.Int(x * y)
		case OpIntLe:
			return ts.Bool(x <= y)
		case OpIntLt:
			return ts.Bool(x < y)
		}
	}
	s := IntSort
	if op == OpIntLe || op == OpIntLt {
		s = BoolSort
	}
	return ts.mk(&Term{Op: op, Sort: s, Args: []*Term{a, b}})
}

// PopCount as a term (sum of bits), result width rw.
func (ts *TermStore) PopCount(a *Term, rw int) *Term {
	if a.Op == OpConst {
		return ts.BV(uint64(bits.OnesCount64(a.BV)), rw)
	}
	// SWAR-free encoding: sum of zero-extended bits in a balanced tree
	w := a.Sort.W
	var xs []*Term
	for i := 0; i < w; i++ {
		xs = append(xs, ts.ZeroExt(rw-1, ts.Extract(i, i, a)))
	}
	for len(xs) > 1 {
		var ys []*Term
		for i := 0; i+1 < len(xs); i += 2 {
			ys = append(ys, ts.BVBin(OpBVAdd, xs[i], xs[i+1]))
		}
		if len(xs)%2 == 1 {
			ys = append(ys, xs[len(xs)-1])
		}
		xs = ys
	}
	return xs[0]
}

// TrailingZeros: index of lowest set bit, w if zero. Result width rw.
func (ts *TermStore) TrailingZeros(a *Term, rw int) *Term {
	w := a.Sort.W
	if a.Op == OpConst {
		if a.BV == 0 {
			return ts.BV(uint64(w), rw)
		}
		return ts.BV(uint64(bits.TrailingZeros64(a.BV)), rw)
	}
	r := ts.BV(uint64(w), rw)
	for i := w - 1; i >= 0; i-- {
		bit := ts.Eq(ts.Extract(i, i, a), ts.BV(1, 1))
		r = ts.Ite(bit, ts.BV(uint64(i), rw), r)
	}
	return r
}

// LeadingZeros: number of leading zero bits, w if zero.
func (ts *TermStore) LeadingZeros(a *Term, rw int) *Term {
	w := a.Sort.W
	if a.Op == OpConst {
		if a.BV == 0 {
			return ts.BV(uint64(w), rw)
		}
		return ts.BV(uint64(bits.LeadingZeros64(a.BV)-(64-w)), rw)
	}
	r := ts.BV(uint64(w), rw)
	for i := 0; i < w; i++ {
		bit := ts.Eq(ts.Extract(i, i, a), ts.BV(1, 1))
		r = ts.Ite(bit, ts.BV(uint64(w-1-i), rw), r)
	}
	return r
}

// Show prints a short rendering for diagnostics.
func (ts *TermStore) Show(t *Term) string {
	s := ts.smtInline(t, 4)
	if len(s) > 300 {
		s = s[:300] + "..."
	}
	return s
}

func (ts *TermStore) smtInline(t *Term, depth int) string {
	if depth == 0 && len(t.Args) > 0 {
		return "…"
	}
	return termHead(t, func(a *Term) string { return ts.smtInline(a, depth-1) })
}

func constStr(t *Term) string {
	switch t.Sort.Kind {
	case SBool:
		if t.BV == 1 {
			return "true"
		}
		return "false"
	case SBV:
		return fmt.Sprintf("(_ bv%d %d)", t.BV, t.Sort.W)
	case SInt:
		v := int64(t.BV)
		if v < 0 {
			return fmt.Sprintf("(- %d)", -v)
		}
		return fmt.Sprintf("%d", v)
	case SFP32:
		return fmt.Sprintf("((_ to_fp 8 24) (_ bv%d 32))", t.BV)
	case SFP64:
		return fmt.Sprintf("((_ to_fp 11 53) (_ bv%d 64))", t.BV)
	}
	return "?"
}

func smtSym(name string) string {
	for _, r := range name {
		if !((r >= 'a' && r <= 'z') || (r >= 'A' && r <= 'Z') || (r >= '0' && r <= '9') || r == '_' || r == '.' || r == '!') {
			return "|" + name + "|"
		}
	}
	return name
}

func termHead(t *Term, sub func(*Term) string) string {
	switch t.Op {
	case OpConst, OpFPConst:
		return constStr(t)
	case OpVar:
		return smtSym(t.Name)
	case OpApp:
		var sb strings.Builder
		sb.WriteString("(" + smtSym(t.Name))
		for _, a := range t.Args {
			sb.WriteString(" " + sub(a))
		}
		sb.WriteString(")")
		return sb.String()
	case OpExtract:
		return fmt.Sprintf("((_ extract %d %d) %s)", t.I, t.J, sub(t.Args[0]))
	case OpZeroExt:
		return fmt.Sprintf("((_ zero_extend %d) %s)", t.I, sub(t.Args[0]))
	case OpSignExt:
		return fmt.Sprintf("((_ sign_extend %d) %s)", t.I, sub(t.Args[0]))
	case OpFPAdd, OpFPSub, OpFPMul, OpFPDiv:
		n := map[Op]string{OpFPAdd: "fp.add", OpFPSub: "fp.sub", OpFPMul: "fp.mul", OpFPDiv: "fp.div"}[t.Op]
		return fmt.Sprintf("(%s RNE %s %s)", n, sub(t.Args[0]), sub(t.Args[1]))
	case OpFPFromSBV:
		return fmt.Sprintf("((_ to_fp %s) RNE %s)", fpDims(t.Sort), sub(t.Args[0]))
	case OpFPFromUBV:
		return fmt.Sprintf("((_ to_fp_unsigned %s) RNE %s)", fpDims(t.Sort), sub(t.Args[0]))
	case OpFPToFP:
		return fmt.Sprintf("((_ to_fp %s) RNE %s)", fpDims(t.Sort), sub(t.Args[0]))
	case OpFPToSBV:
		return fmt.Sprintf("((_ fp.to_sbv %d) RTZ %s)", t.Sort.W, sub(t.Args[0]))
	case OpFPFromBits:
		return fmt.Sprintf("((_ to_fp %s) %s)", fpDims(t.Sort), sub(t.Args[0]))
	case OpConstArray:
		return fmt.Sprintf("((as const %s) %s)", t.Sort, sub(t.Args[0]))
	case OpForall:
		return fmt.Sprintf("(forall ((%s %s)) %s)", smtSym(t.Args[0].Name), t.Args[0].Sort, sub(t.Args[1]))
	}
	n, ok := opNames[t.Op]
	if !ok {
		panic(fmt.Sprintf("no smt name for op %d", t.Op))
	}
	var sb strings.Builder
	sb.WriteString("(" + n)
	for _, a := range t.Args {
		sb.WriteString(" " + sub(a))
	}
	sb.WriteString(")")
	return sb.String()
}

func fpDims(s *Sort) string {
	if s == FP32Sort {
		return "8 24"
	}
	return "11 53"
}

// SMTScript renders the assertions as an SMT-LIB2 script. Shared sub-terms become
// zero-arity define-funs so the text stays linear in the DAG size.
func (ts *TermStore) SMTScript(asserts []*Term, getModel []*Term, extraDecls string) string {
	var sb strings.Builder
	// collect reachable terms and reference counts
	ref := map[*Term]int{}
	var order []*Term
	var visit func(t *Term)
	visit = func(t *Term) {
		ref[t]++
		if ref[t] > 1 {
			return
		}
		for _, a := range t.Args {
			visit(a)
		}
		order = append(order, t)
	}
	for _, a := range asserts {
		visit(a)
	}
	for _, a := range getModel {
		visit(a)
	}
	// nodes that mention a bound variable must stay inside their quantifier
	boundVars := map[*Term]bool{}
	for _, t := range order {
		if t.Op == OpForall {
			boundVars[t.Args[0]] = true
		}
	}
	dep := map[*Term]bool{}
	if len(boundVars) > 0 {
		for _, t := range order { // order is post-order: children first
			if boundVars[t] {
				dep[t] = true
				continue
			}
			for _, a := range t.Args {
				if dep[a] {
					dep[t] = true
					break
				}
			}
			if t.Op == OpForall {
				// the quantifier closes its variable (other bound variables may still occur)
				d := false
				for _, bv := range ts.Vars(t.Args[1]) {
					if boundVars[bv] && bv != t.Args[0] {
						d = true
					}
				}
				dep[t] = d
			}
		}
	}
	// declarations
	usedDecl := map[string]bool{}
	usedSorts := map[string]bool{}
	for _, t := range order {
		if (t.Op == OpVar && !boundVars[t]) || t.Op == OpApp {
			usedDecl[t.Name] = true
		}
	}
	var names []string
	for n := range usedDecl {
		names = append(names, n)
	}
	sort.Strings(names)
	var noteSort func(s *Sort)
	noteSort = func(s *Sort) {
		switch s.Kind {
		case SUnint:
			if !usedSorts[s.Name] {
				usedSorts[s.Name] = true
				fmt.Fprintf(&sb, "(declare-sort %s 0)\n", s.Name)
			}
		case SArray:
			noteSort(s.Idx)
			noteSort(s.Elem)
		}
	}
	for _, n := range names {
		d := ts.decls[n]
		for _, a := range d.Args {
			noteSort(a)
		}
		noteSort(d.Ret)
	}
	for _, n := range names {
		d := ts.decls[n]
		var as []string
		for _, a := range d.Args {
			as = append(as, a.String())
		}
		fmt.Fprintf(&sb, "(declare-fun %s (%s) %s)\n", smtSym(n), strings.Join(as, " "), d.Ret)
	}
	sb.WriteString(extraDecls)
	named := map[*Term]string{}
	sub := func(a *Term) string {
		if n, ok := named[a]; ok {
			return n
		}
		return "" // filled below
	}
	var render func(t *Term) string
	render = func(t *Term) string {
		if n, ok := named[t]; ok {
			return n
		}
		return termHead(t, render)
	}
	_ = sub
	for _, t := range order {
		if len(t.Args) == 0 {
			continue
		}
		if ref[t] > 1 && !dep[t] {
			n := fmt.Sprintf("t%d", t.id)
			fmt.Fprintf(&sb, "(define-fun %s () %s %s)\n", n, t.Sort, termHead(t, render))
			named[t] = n
		}
	}
	for _, a := range asserts {
		fmt.Fprintf(&sb, "(assert %s)\n", render(a))
	}
	sb.WriteString("(check-sat)\n")
	if len(getModel) > 0 {
		sb.WriteString("(get-value (")
		for _, v := range getModel {
			sb.WriteString(render(v) + " ")
		}
		sb.WriteString("))\n")
	}
	return sb.String()
}

// Size returns the number of distinct DAG nodes reachable from the terms.
func (ts *TermStore) Size(xs ...*Term) int {
	seen := map[*Term]bool{}
	var visit func(t *Term)
	visit = func(t *Term) {
		if seen[t] {
			return
		}
		seen[t] = true
		for _, a := range t.Args {
			visit(a)
		}
	}
	for _, x := range xs {
		visit(x)
	}
	return len(seen)
}

// Vars collects the free variables reachable from xs.
func (ts *TermStore) Vars(xs ...*Term) []*Term {
	seen := map[*Term]bool{}
	var out []*Term
	var visit func(t *Term)
	visit = func(t *Term) {
		if seen[t] {
			return
		}
		seen[t] = true
		if t.Op == OpVar {
			out = append(out, t)
		}
		for _, a := range t.Args {
			visit(a)
		}
	}
	for _, x := range xs {
		visit(x)
	}
	sort.Slice(out, func(i, j int) bool { return out[i].Name < out[j].Name })
	return out
}

// SMTScriptLocked renders a script while holding mu (term rendering only reads the DAG, but
// declarations are shared).
func (ts *TermStore) SMTScriptLocked(mu *sync.Mutex, asserts []*Term, getModel []*Term) string {
	mu.Lock()
	defer mu.Unlock()
	return ts.SMTScript(asserts, getModel, "")
}

// OrPC is Or for path conditions: both are left-nested conjunctions that usually share a
// prefix; the shared prefix is factored out so it stays a syntactic conjunct.
func (ts *TermStore) OrPC(a, b *Term) *Term {
	if a == b {
		return a
	}
	if a.IsFalse() {
		return b
	}
	if b.IsFalse() {
		return a
	}
	spine := map[*Term]bool{}
	for x := a; ; x = x.Args[0] {
		spine[x] = true
		if x.Op != OpAnd {
			break
		}
	}
	var common *Term
	var restB []*Term
	for x := b; ; x = x.Args[0] {
		if spine[x] {
			common = x
			break
		}
		if x.Op != OpAnd {
			break
		}
		restB = append(restB, x.Args[1])
	}
	if common == nil {
		return ts.Or(a, b)
	}
	var restA []*Term
	for x := a; x != common; x = x.Args[0] {
		restA = append(restA, x.Args[1])
	}
	ra, rb := ts.True(), ts.True()
	for i := len(restA) - 1; i >= 0; i-- {
		ra = ts.And(ra, restA[i])
	}
	for i := len(restB) - 1; i >= 0; i-- {
		rb = ts.And(rb, restB[i])
	}
	return ts.And(common, ts.Or(ra, rb))
}

// SplitPC factors two path conditions into a shared prefix and the distinguishing parts.
func (ts *TermStore) SplitPC(a, b *Term) (common, ra, rb *Term, ok bool) {
	spine := map[*Term]bool{}
	for x := a; ; x = x.Args[0] {
		spine[x] = true
		if x.Op != OpAnd {
			break
		}
	}
	var restB []*Term
	for x := b; ; x = x.Args[0] {
		if spine[x] {
			common = x
			break
		}
		if x.Op != OpAnd {
			break
		}
		restB = append(restB, x.Args[1])
	}
	if common == nil {
		return nil, nil, nil, false
	}
	var restA []*Term
	for x := a; x != common; x = x.Args[0] {
		restA = append(restA, x.Args[1])
	}
	ra, rb = ts.True(), ts.True()
	for i := len(restA) - 1; i >= 0; i-- {
		ra = ts.And(ra, restA[i])
	}
	for i := len(restB) - 1; i >= 0; i-- {
		rb = ts.And(rb, restB[i])
	}
	return common, ra, rb, true
}

// HasQuant reports whether t contains a quantifier.
func (ts *TermStore) HasQuant(t *Term) bool {
	seen := map[*Term]bool{}
	var visit func(t *Term) bool
	visit = func(t *Term) bool {
		if seen[t] {
			return false
		}
		seen[t] = true
		if t.Op == OpForall {
			return true
		}
		for _, a := range t.Args {
			if visit(a) {
				return true
			}
		}
		return false
	}
	return visit(t)
}

// Subst replaces variable v by val in t (structure is rebuilt without re-simplification).
func (ts *TermStore) Subst(t, v, val *Term) *Term {
	memo := map[*Term]*Term{}
	var rec func(t *Term) *Term
	rec = func(t *Term) *Term {
		if t == v {
			return val
		}
		if len(t.Args) == 0 {
			return t
		}
		if r, ok := memo[t]; ok {
			return r
		}
		changed := false
		args := make([]*Term, len(t.Args))
		for i, a := range t.Args {
			args[i] = rec(a)
			if args[i] != a {
				changed = true
			}
		}
		r := t
		if changed {
			r = ts.mk(&Term{Op: t.Op, Sort: t.Sort, Args: args, BV: t.BV, Name: t.Name, I: t.I, J: t.J})
		}
		memo[t] = r
		return r
	}
	return rec(t)
}

// Instances returns the bodies of the universally quantified sub-formulas of fact that occur
// positively at the top (through conjunctions and the right side of implications), instantiated at val.
func (ts *TermStore) Instances(fact, val *Term) []*Term {
	var out []*Term
	var walk func(t *Term, guard *Term)
	walk = func(t *Term, guard *Term) {
		switch t.Op {
		case OpForall:
			if t.Args[0].Sort == val.Sort {
				out = append(out, ts.Implies(guard, ts.Subst(t.Args[1], t.Args[0], val)))
			}
		case OpAnd:
			walk(t.Args[0], guard)
			walk(t.Args[1], guard)
		case OpNot:
			// not(and(a, not b)) is a ==> b
			if in := t.Args[0]; in.Op == OpAnd {
				if in.Args[1].Op == OpNot {
					walk(in.Args[1].Args[0], ts.And(guard, in.Args[0]))
				} else if in.Args[0].Op == OpNot {
					walk(in.Args[0].Args[0], ts.And(guard, in.Args[1]))
				}
			}
		}
	}
	walk(fact, ts.True())
	return out
}
