package main

// Heap classes (Boogie-style: one SMT array per scalar leaf of the class, indexed by a
// 64-bit reference; 0 is nil) and maps (total SMT arrays with default zero).

import (
	"fmt"
	"go/ast"
	"go/token"
	"go/types"
)

type heapLeaf struct {
	name string
	sort *Sort
}

type heapClass struct {
	Name   string
	Named  *types.Named
	St     *types.Struct
	leaves []heapLeaf
	start  []int // start[i] = first leaf of field i; start[n] = total
	locs   []*Loc
	alloc  *Loc
}

type HeapRefV struct {
	Ref *Term
	Cls *heapClass
}

type heapLV struct {
	Ref   *Term
	Cls   *heapClass
	Field int
}

type MapV struct {
	Nil bool
	Val *Term // Array K V (total, default zero)
	T   *types.Map
}

type mapLV struct {
	Base LV
	Key  Value
	Typ  *types.Map
}

var refSort = BVSort(64)

func (ex *Exec) heapClassOf(t types.Type) *heapClass {
	n, ok := t.(*types.Named)
	if !ok {
		return nil
	}
	if n.Obj().Pkg() == nil {
		return nil
	}
	key := n.Obj().Pkg().Path() + "." + n.Obj().Name()
	if !ex.prog.HeapClasses[key] {
		return nil
	}
	if hc, ok := ex.heapClasses[key]; ok {
		return hc
	}
	st, ok := n.Underlying().(*types.Struct)
	if !ok {
		unsupported("heap class %s is not a struct", key)
	}
	hc := &heapClass{Name: n.Obj().Name(), Named: n, St: st}
	ex.heapClasses[key] = hc
	for i := 0; i < st.NumFields(); i++ {
		hc.start = append(hc.start, len(hc.leaves))
		ex.flattenType(st.Field(i).Type(), st.Field(i).Name(), &hc.leaves)
	}
	hc.start = append(hc.start, len(hc.leaves))
	for _, lf := range hc.leaves {
		l := ex.newLoc("H."+hc.Name+"."+lf.name, nil)
		ex.escaped[l] = true
		ex.base[l] = ex.ts.Var("H."+hc.Name+"."+lf.name, ArraySort(refSort, lf.sort))
		hc.locs = append(hc.locs, l)
	}
	hc.alloc = ex.newLoc("H."+hc.Name+".alloc", nil)
	ex.escaped[hc.alloc] = true
	ex.base[hc.alloc] = ex.ts.Var("H."+hc.Name+".$alloc", ArraySort(refSort, BoolSort))
	return hc
}

// flattenType lists the scalar leaves of a field type. Pointers to plain structs are
// flattened as immutable values; pointers to heap classes are references.
func (ex *Exec) flattenType(t types.Type, name string, out *[]heapLeaf) {
	if s, ok := scalarSort(t); ok {
		*out = append(*out, heapLeaf{name, s})
		return
	}
	if isString(t) {
		*out = append(*out, heapLeaf{name, IntSort})
		return
	}
	switch u := t.Underlying().(type) {
	case *types.Struct:
		for i := 0; i < u.NumFields(); i++ {
			ex.flattenType(u.Field(i).Type(), name+"."+u.Field(i).Name(), out)
		}
		return
	case *types.Array:
		for i := int64(0); i < u.Len(); i++ {
			ex.flattenType(u.Elem(), fmt.Sprintf("%s[%d]", name, i), out)
		}
		return
	case *types.Pointer:
		if ex.heapClassOf(u.Elem()) != nil || isSelfClass(ex, u.Elem()) {
			*out = append(*out, heapLeaf{name, refSort})
			return
		}
		if _, ok := u.Elem().Underlying().(*types.Struct); ok {
			ex.assumptions["objects referenced from heap nodes through "+name+" are treated as immutable values"] = true
			ex.flattenType(u.Elem(), name+"->", out)
			return
		}
	}
	unsupported("heap class field %s of type %s", name, t)
}

func isSelfClass(ex *Exec, t types.Type) bool {
	n, ok := t.(*types.Named)
	if !ok || n.Obj().Pkg() == nil {
		return false
	}
	return ex.prog.HeapClasses[n.Obj().Pkg().Path()+"."+n.Obj().Name()]
}

// buildValue reconstructs a value of type t from leaf terms.
func (ex *Exec) buildValue(t types.Type, leaves []*Term, pos *int, st *State) Value {
	if _, ok := scalarSort(t); ok {
		v := leaves[*pos]
		*pos++
		return v
	}
	if isString(t) {
		v := leaves[*pos]
		*pos++
		return &StrV{T: v}
	}
	switch u := t.Underlying().(type) {
	case *types.Struct:
		sv := &StructV{Fields: make([]Value, u.NumFields())}
		for i := range sv.Fields {
			sv.Fields[i] = ex.buildValue(u.Field(i).Type(), leaves, pos, st)
		}
		return sv
	case *types.Array:
		av := &ArrayV{Elems: make([]Value, u.Len())}
		for i := range av.Elems {
			av.Elems[i] = ex.buildValue(u.Elem(), leaves, pos, st)
		}
		return av
	case *types.Pointer:
		if hc := ex.heapClassOf(u.Elem()); hc != nil {
			v := leaves[*pos]
			*pos++
			return &HeapRefV{Ref: v, Cls: hc}
		}
		val := ex.buildValue(u.Elem(), leaves, pos, st)
		l := ex.newLoc("heapval", u.Elem())
		ex.escaped[l] = true
		st.store[l] = val
		return &PtrV{Loc: l}
	}
	unsupported("heap value of type %s", t)
	return nil
}

// flattenValue lists the leaf terms of a value (inverse of buildValue).
func (ex *Exec) flattenValue(v Value, st *State, out *[]*Term) {
	switch x := v.(type) {
	case *Term:
		*out = append(*out, x)
	case *StrV:
		*out = append(*out, ex.strTerm(x))
	case *StructV:
		for _, f := range x.Fields {
			ex.flattenValue(f, st, out)
		}
	case *ArrayV:
		for _, e := range x.Elems {
			ex.flattenValue(e, st, out)
		}
	case *HeapRefV:
		*out = append(*out, x.Ref)
	case *PtrV:
		if x.Nil {
			unsupported("nil pointer stored into a heap node")
		}
		ex.flattenValue(ex.getPath(ex.load(st, x.Loc), x.Path, st, token.NoPos), st, out)
	default:
		unsupported("heap store of %T", v)
	}
}

func (ex *Exec) heapNilCheck(st *State, r *HeapRefV, p token.Pos) {
	ok := ex.ts.Not(ex.ts.Eq(r.Ref, ex.ts.BV(0, 64)))
	if ok.IsTrue() || conjunctOf(st.pc, ok, 128) {
		return
	}
	ex.assert(st, "safety.nil", ok, p, "nil dereference of *"+r.Cls.Name)
	st.pc = ex.ts.And(st.pc, ok)
}

func (ex *Exec) heapLoadField(st *State, r *HeapRefV, field int, p token.Pos) Value {
	ex.heapNilCheck(st, r, p)
	hc := r.Cls
	var leaves []*Term
	for i := hc.start[field]; i < hc.start[field+1]; i++ {
		leaves = append(leaves, ex.ts.Select(ex.load(st, hc.locs[i]).(*Term), r.Ref))
	}
	pos := 0
	return ex.buildValue(hc.St.Field(field).Type(), leaves, &pos, st)
}

func (ex *Exec) heapLoadAll(st *State, r *HeapRefV, p token.Pos) Value {
	sv := &StructV{Fields: make([]Value, r.Cls.St.NumFields())}
	for i := range sv.Fields {
		sv.Fields[i] = ex.heapLoadField(st, r, i, p)
	}
	return sv
}

func (ex *Exec) heapStoreField(st *State, r *HeapRefV, field int, v Value, p token.Pos) {
	ex.heapNilCheck(st, r, p)
	hc := r.Cls
	var leaves []*Term
	ex.flattenValue(v, st, &leaves)
	if len(leaves) != hc.start[field+1]-hc.start[field] {
		unsupported("heap store shape mismatch for %s.%s", hc.Name, hc.St.Field(field).Name())
	}
	for k, lf := range leaves {
		i := hc.start[field] + k
		st.store[hc.locs[i]] = ex.ts.Store(ex.load(st, hc.locs[i]).(*Term), r.Ref, lf)
	}
}

func (ex *Exec) heapAlloc(st *State, hc *heapClass, v *StructV) Value {
	ts := ex.ts
	r := ts.Fresh("new."+hc.Name, refSort)
	alloc := ex.load(st, hc.alloc).(*Term)
	ex.assume(st, ts.And(ts.Not(ts.Eq(r, ts.BV(0, 64))), ts.Not(ts.Select(alloc, r))))
	st.store[hc.alloc] = ts.Store(alloc, r, ts.True())
	ref := &HeapRefV{Ref: r, Cls: hc}
	// pc gets r != 0 so that later dereferences are trivially fine
	st.pc = ts.And(st.pc, ts.Not(ts.Eq(r, ts.BV(0, 64))))
	for i := range v.Fields {
		ex.heapStoreField(st, ref, i, v.Fields[i], token.NoPos)
	}
	return ref
}

func (ex *Exec) heapFieldLV(st *State, r *HeapRefV, idx []int, p token.Pos) LV {
	if len(idx) != 1 {
		unsupported("embedded field in heap class")
	}
	return LV{Heap: &heapLV{Ref: r.Ref, Cls: r.Cls, Field: idx[0]}}
}

func (ex *Exec) heapHavocRef(st *State, hc *heapClass, prefix string) Value {
	return &HeapRefV{Ref: ex.ts.Fresh(prefix, refSort), Cls: hc}
}

// heapAllocated: the reference is non-nil and was allocated before.
func (ex *Exec) heapAllocated(st *State, r *HeapRefV) *Term {
	ts := ex.ts
	return ts.And(ts.Not(ts.Eq(r.Ref, ts.BV(0, 64))), ts.Select(ex.load(st, r.Cls.alloc).(*Term), r.Ref))
}

// ---- maps ----

func (ex *Exec) mapSorts(t *types.Map) (*Sort, *Sort) {
	ks, ok1 := scalarSort(t.Key())
	vs, ok2 := scalarSort(t.Elem())
	if !ok1 || !ok2 {
		unsupported("map type %s (only scalar keys and values are modelled)", t)
	}
	ex.assumptions["maps are modelled as total functions with default zero (presence is not observable in the verified code)"] = true
	return ks, vs
}

func (ex *Exec) zeroTerm(s *Sort) *Term {
	switch s.Kind {
	case SBV:
		return ex.ts.BV(0, s.W)
	case SBool:
		return ex.ts.False()
	case SFP32:
		return ex.ts.FP32(0)
	case SFP64:
		return ex.ts.FP64(0)
	case SInt:
		return ex.ts.Int(0)
	}
	unsupported("zero of sort %s", s)
	return nil
}

func (ex *Exec) makeMap(st *State, t *types.Map) Value {
	ks, vs := ex.mapSorts(t)
	return &MapV{Val: ex.ts.ConstArray(ArraySort(ks, vs), ex.zeroTerm(vs)), T: t}
}

func (ex *Exec) mapLit(st *State, e *ast.CompositeLit, t *types.Map) Value {
	m := ex.makeMap(st, t).(*MapV)
	for _, el := range e.Elts {
		kv := el.(*ast.KeyValueExpr)
		k := ex.eval(kv.Key, st).(*Term)
		v := ex.eval(kv.Value, st).(*Term)
		m = &MapV{Val: ex.ts.Store(m.Val, k, v), T: t}
	}
	return m
}

func (ex *Exec) mapGet(st *State, mv Value, k Value, t *types.Map) (Value, Value) {
	m, ok := mv.(*MapV)
	if !ok {
		unsupported("map read on %T", mv)
	}
	if m.Nil {
		_, vs := ex.mapSorts(t)
		return ex.zeroTerm(vs), ex.ts.False()
	}
	kt, ok := k.(*Term)
	if !ok {
		unsupported("non-scalar map key")
	}
	return ex.ts.Select(m.Val, kt), nil
}

func (ex *Exec) mapLoad(st *State, m *mapLV) Value {
	mv := ex.loadLV(st, m.Base, token.NoPos)
	v, _ := ex.mapGet(st, mv, m.Key, m.Typ)
	return v
}

func (ex *Exec) mapStore(st *State, m *mapLV, v Value) {
	mv, ok := ex.loadLV(st, m.Base, token.NoPos).(*MapV)
	if !ok {
		unsupported("map store on non-map")
	}
	if mv.Nil {
		ex.assert(st, "safety.nilmap", ex.ts.False(), token.NoPos, "assignment to entry in nil map")
		st.pc = ex.ts.False()
		return
	}
	ex.storeLV(st, m.Base, &MapV{Val: ex.ts.Store(mv.Val, m.Key.(*Term), v.(*Term)), T: mv.T})
}

// mapDelete: in the total-function model a deleted key reads as the zero value again.
func (ex *Exec) mapDelete(st *State, e *ast.CallExpr) {
	lv := ex.lvalue(e.Args[0], st)
	mv, ok := ex.loadLV(st, lv, e.Pos()).(*MapV)
	if !ok || mv.Nil {
		return
	}
	k := ex.eval(e.Args[1], st).(*Term)
	ex.storeLV(st, lv, &MapV{Val: ex.ts.Store(mv.Val, k, ex.zeroTerm(mv.Val.Sort.Elem)), T: mv.T})
}

func (ex *Exec) mergeMaps(c *Term, x, y *MapV) Value {
	if x.Nil || y.Nil {
		if x.Nil && y.Nil {
			return x
		}
		unsupported("merge of nil and non-nil map")
	}
	return &MapV{Val: ex.ts.Ite(c, x.Val, y.Val), T: x.T}
}

// rangeMapCopy recognises `for k, v := range src { dst[k] = v }` where dst is empty.
func (ex *Exec) rangeMapCopy(s *ast.RangeStmt, st *State) bool {
	if len(s.Body.List) != 1 || s.Key == nil || s.Value == nil {
		return false
	}
	as, ok := s.Body.List[0].(*ast.AssignStmt)
	if !ok || as.Tok != token.ASSIGN || len(as.Lhs) != 1 || len(as.Rhs) != 1 {
		return false
	}
	ix, ok := as.Lhs[0].(*ast.IndexExpr)
	if !ok {
		return false
	}
	kid, ok1 := s.Key.(*ast.Ident)
	vid, ok2 := s.Value.(*ast.Ident)
	ik, ok3 := ix.Index.(*ast.Ident)
	rv, ok4 := as.Rhs[0].(*ast.Ident)
	if !ok1 || !ok2 || !ok3 || !ok4 || ik.Name != kid.Name || rv.Name != vid.Name {
		return false
	}
	src, ok := ex.eval(s.X, st).(*MapV)
	if !ok || src.Nil {
		return false
	}
	dlv := ex.lvalue(ix.X, st)
	dst, ok := ex.loadLV(st, dlv, s.Pos()).(*MapV)
	if !ok || dst.Nil {
		return false
	}
	// dst must be the empty map (constant zero array) for the copy to equal src
	if dst.Val.Op != OpConstArray {
		unsupported("map copy loop into a non-empty map at %s", ex.pos(s.Pos()))
	}
	ex.storeLV(st, dlv, &MapV{Val: src.Val, T: dst.T})
	return true
}
