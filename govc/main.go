package main

import (
	"flag"
	"fmt"
	"os"
	"regexp"
	"sort"
	"time"
)

func main() {
	if len(os.Args) < 2 {
		fmt.Fprintln(os.Stderr, "usage: govc verify|check|overlay ...")
		os.Exit(2)
	}
	switch os.Args[1] {
	case "verify":
		cmdVerify(os.Args[2:])
	case "overlay":
		cmdOverlay(os.Args[2:])
	case "check":
		cmdCheck(os.Args[2:])
	default:
		fmt.Fprintln(os.Stderr, "unknown command", os.Args[1])
		os.Exit(2)
	}
}

func cmdOverlay(args []string) {
	fs := flag.NewFlagSet("overlay", flag.ExitOnError)
	root := fs.String("root", "/repo", "repository root")
	fs.Parse(args)
	prog, err := LoadProg(*root)
	if prog != nil {
		for p, s := range prog.Overlays {
			fmt.Printf("==== %s\n%s\n", p, s)
		}
	}
	if err != nil {
		fmt.Fprintln(os.Stderr, err)
		os.Exit(2)
	}
}

func cmdVerify(args []string) {
	fs := flag.NewFlagSet("verify", flag.ExitOnError)
	root := fs.String("root", "/repo", "repository root")
	match := fs.String("match", ".", "regexp on block names")
	prop := fs.String("prop", "", "only blocks tagged with this property")
	timeout := fs.Int("timeout", 20, "seconds per obligation")
	keep := fs.String("keep", "", "directory for scripts of unproved obligations")
	verbose := fs.Bool("v", false, "list every obligation")
	fs.Parse(args)
	t0 := time.Now()
	prog, err := LoadProg(*root)
	if err != nil {
		fmt.Fprintln(os.Stderr, "load:", err)
		os.Exit(2)
	}
	fmt.Printf("loaded %d packages, %d contract blocks in %.1fs\n", len(prog.Pkgs), len(prog.BlockList), time.Since(t0).Seconds())
	v := NewVerifier(prog)
	v.Timeout = time.Duration(*timeout) * time.Second
	v.Keep = *keep
	re := regexp.MustCompile(*match)
	var blocks []*Block
	pkgs := map[string]bool{}
	for _, b := range prog.BlockList {
		if (b.Kind != "func" && b.Kind != "lemma") || b.Axiom {
			continue
		}
		if !re.MatchString(b.QName()) {
			continue
		}
		if *prop != "" && !contains(b.Props, *prop) {
			continue
		}
		blocks = append(blocks, b)
		pkgs[b.Pkg] = true
	}
	t1 := time.Now()
	if err := v.Preinit(sortedKeys(pkgs)...); err != nil {
		fmt.Fprintln(os.Stderr, "init:", err)
		os.Exit(2)
	}
	fmt.Printf("package init executed in %.1fs\n", time.Since(t1).Seconds())
	bad := 0
	nobl, nproved := 0, 0
	for _, b := range blocks {
		for _, tr := range v.VerifyBlock(b) {
			st := "ok"
			if tr.Unsupported != "" {
				st = "UNSUPPORTED: " + tr.Unsupported
				bad++
			}
			np, nf := 0, 0
			for _, r := range tr.Results {
				nobl++
				if r.Status == "proved" || r.Status == "trivial" {
					np++
					nproved++
				} else {
					nf++
				}
			}
			if nf > 0 {
				bad++
				st = "FAILED"
			}
			if tr.Unsupported == "" && len(tr.DeadCovers) > 0 {
				st += fmt.Sprintf(" VACUOUS-PATHS%v", tr.DeadCovers)
				bad++
			}
			if tr.Unsupported == "" && (tr.Cover != "sat" || !tr.CanaryRefuted) {
				st += fmt.Sprintf(" VACUOUS(cover=%s canary=%v)", tr.Cover, tr.CanaryRefuted)
				bad++
			}
			fmt.Printf("%-60s %d/%d  %.1fs  %s\n", tr.Name, np, len(tr.Results), tr.Seconds, st)
			for _, r := range tr.Results {
				if *verbose || (r.Status != "proved" && r.Status != "trivial") {
					fmt.Println("    ", r.String())
					if r.Status == "failed" {
						var ks []string
						for k := range r.Model {
							ks = append(ks, k)
						}
						sort.Strings(ks)
						for _, k := range ks {
							fmt.Printf("         %s = %s\n", k, r.Model[k])
						}
					}
				}
			}
		}
	}
	fmt.Printf("obligations %d, discharged %d, targets with problems %d, total %.1fs\n", nobl, nproved, bad, time.Since(t0).Seconds())
	if bad > 0 {
		os.Exit(1)
	}
}

func contains(xs []string, x string) bool {
	for _, y := range xs {
		if y == x {
			return true
		}
	}
	return false
}

