package main

import (
	"fmt"
	"go/ast"
	"go/types"
	"regexp"
	"sort"
	"strings"
	"sync"
	"time"
)

type TargetResult struct {
	Name          string
	Block         *Block
	Results       []*OblResult
	Unsupported   string
	Cover         string // "sat" if requires are satisfiable, else reason
	CanaryRefuted bool
	Seconds       float64
	Assumptions   []string
	UsedContracts []string
	Inputs        []*InputVar
	Binding       map[string]int64
	KnownID       string // non-empty: this is the carved-out known-finding variant
	DeadCovers    []string // reachability guards that are not satisfiable (vacuous paths)
	ex            *Exec
}

type splitSpec struct {
	Var    string
	Lo, Hi int64
}

var splitRe = regexp.MustCompile(`^([A-Za-z_][A-Za-z0-9_.()*\[\]]*)\s+in\s+(-?\d+)\.\.(-?\d+)$`)

func (b *Block) splits() ([]splitSpec, error) {
	var out []splitSpec
	for _, c := range b.Clauses {
		if c.Kind != "split" {
			continue
		}
		m := splitRe.FindStringSubmatch(strings.TrimSpace(c.Text))
		if m == nil {
			return nil, fmt.Errorf("%s:%d: bad split clause %q (want: x in lo..hi)", b.File, c.Line, c.Text)
		}
		var lo, hi int64
		fmt.Sscan(m[2], &lo)
		fmt.Sscan(m[3], &hi)
		out = append(out, splitSpec{m[1], lo, hi})
	}
	return out, nil
}

func bindings(sp []splitSpec) []map[string]int64 {
	out := []map[string]int64{{}}
	for _, s := range sp {
		var next []map[string]int64
		for _, b := range out {
			for v := s.Lo; v <= s.Hi; v++ {
				nb := map[string]int64{}
				for k, x := range b {
					nb[k] = x
				}
				nb[s.Var] = v
				next = append(next, nb)
			}
		}
		out = next
	}
	return out
}

func bindingSuffix(b map[string]int64) string {
	if len(b) == 0 {
		return ""
	}
	var ks []string
	for k := range b {
		ks = append(ks, k)
	}
	sort.Strings(ks)
	var parts []string
	for _, k := range ks {
		parts = append(parts, fmt.Sprintf("%s=%d", k, b[k]))
	}
	return "@" + strings.Join(parts, ",")
}

type Verifier struct {
	prog    *Prog
	base    *Exec
	Timeout time.Duration
	Keep    string
	mu      sync.Mutex
}

func NewVerifier(prog *Prog) *Verifier {
	return &Verifier{prog: prog, base: NewExec(prog, NewTermStore()), Timeout: 20 * time.Second}
}

// Preinit runs package initialisation once so that clones share the tables.
func (v *Verifier) Preinit(pkgPaths ...string) (err error) {
	defer func() {
		if r := recover(); r != nil {
			if u, ok := r.(*unsupportedErr); ok {
				err = u
				return
			}
			panic(r)
		}
	}()
	for _, p := range pkgPaths {
		pk := v.prog.Pkgs[p]
		if pk == nil {
			continue
		}
		// touch every package-level variable that has an initialiser
		for vr, gi := range v.prog.GInit {
			if gi.Pkg == pk {
				if len(v.prog.Written[vr]) > 0 {
					continue
				}
				v.base.globalLoc(vr, nil)
			}
		}
		v.base.runInits(p)
	}
	return nil
}

func (v *Verifier) VerifyBlock(b *Block) []*TargetResult {
	sp, err := b.splits()
	if err != nil {
		return []*TargetResult{{Name: b.QName(), Block: b, Unsupported: err.Error()}}
	}
	bs := bindings(sp)
	nk := 0
	for _, c := range b.Clauses {
		if c.Kind == "known" {
			nk++
		}
	}
	out := make([]*TargetResult, len(bs)*(nk+1))
	var wg sync.WaitGroup
	sem := make(chan struct{}, 12)
	for i, bd := range bs {
		for k := 0; k <= nk; k++ {
			wg.Add(1)
			go func(i int, k int, bd map[string]int64) {
				defer wg.Done()
				sem <- struct{}{}
				defer func() { <-sem }()
				out[i*(nk+1)+k] = v.verifyOne(b, bd, k)
			}(i, k, bd)
		}
	}
	wg.Wait()
	if b.Kind == "func" && len(sp) > 0 {
		out = append(out, v.verifyOne(b, nil, -1))
	}
	return out
}

func (v *Verifier) verifyOne(b *Block, bd map[string]int64, variant int) (tr *TargetResult) {
	start := time.Now()
	name := b.QName()
	if b.Kind == "lemma" {
		name = b.PkgName + ".lemma:" + b.Name
	}
	name += bindingSuffix(bd)
	tr = &TargetResult{Name: name, Block: b, Binding: bd}
	v.mu.Lock()
	ex := v.base.Clone()
	v.mu.Unlock()
	ex.target = name
	ex.targetPkg = b.Pkg
	ex.curBlock = b
	tr.ex = ex
	defer func() {
		tr.Seconds = time.Since(start).Seconds()
		for a := range ex.assumptions {
			tr.Assumptions = append(tr.Assumptions, a)
		}
		sort.Strings(tr.Assumptions)
		for a := range ex.usedContracts {
			tr.UsedContracts = append(tr.UsedContracts, a)
		}
		sort.Strings(tr.UsedContracts)
		tr.Inputs = ex.inputs
		if r := recover(); r != nil {
			if u, ok := r.(*unsupportedErr); ok {
				tr.Unsupported = u.msg
				return
			}
			panic(r)
		}
	}()
	pk := v.prog.Pkgs[b.Pkg]
	if pk == nil {
		unsupported("package %s not loaded", b.Pkg)
	}
	root := &frame{pkg: pk, env: NewEnv(nil), name: "verify " + name}
	ex.frames = []*frame{root}
	ex.pushScope()

	var reqs, enss, knowns, uses []*Clause
	for _, c := range b.Clauses {
		switch c.Kind {
		case "use":
			if !c.IsLoop {
				uses = append(uses, c)
			}
		case "inline":
			for _, n := range strings.FieldsFunc(c.Text, func(r rune) bool { return r == ',' || r == ' ' }) {
				ex.forceInline[n] = true
			}
		case "uninterpreted":
			for _, n := range strings.FieldsFunc(c.Text, func(r rune) bool { return r == ',' || r == ' ' }) {
				if ex.uninterp == nil {
					ex.uninterp = map[string]bool{}
				}
				ex.uninterp[n] = true
			}
		case "reveal":
			for _, n := range strings.FieldsFunc(c.Text, func(r rune) bool { return r == ',' || r == ' ' }) {
				ex.revealed[n] = true
			}
		case "requires":
			reqs = append(reqs, c)
		case "ensures":
			enss = append(enss, c)
		case "known":
			knowns = append(knowns, c)
		}
	}
	if variant > 0 {
		tr.KnownID = knowns[variant-1].ID
		tr.Name += "!known:" + tr.KnownID
		ex.target = tr.Name
	}
	applyUses := func(st *State, recv Value, args []Value) {
		for _, c := range uses {
			if c.ID == b.Name && b.Kind == "lemma" {
				// induction hypothesis: only for a smaller instance
				if c.DecName == "" {
					unsupported("lemma %s uses itself: needs a decreases clause and an unquantified instance", b.Name)
				}
				dfi := v.prog.FuncByKey[funcKey(b.Pkg, "", c.DecName)]
				if dfi == nil {
					unsupported("lemma %s uses itself but has no decreases clause", b.Name)
				}
				s2 := st.fork(st.pc)
				g := ex.inline(dfi, nil, pk, nil, nil, args, s2, &ast.CallExpr{}).(*Term)
				ex.assertNamed(s2, "induction."+c.Name, g, "the induction hypothesis is used on a smaller instance")
			}
			ex.suppress++
			g := ex.inline(clauseFn2(v, b, c), nil, pk, nil, recv, args, st, &ast.CallExpr{}).(*Term)
			ex.suppress--
			ex.assume(st, g)
			if v.prog.Axioms[lemmaKey(b.PkgName, c.ID)] {
				ex.assumptions["AXIOM "+b.PkgName+"."+c.ID+" (assumed, see the contract file)"] = true
			} else {
				ex.usedContracts["lemma "+lemmaKey(b.PkgName, c.ID)] = true
			}
		}
	}
	// carve-outs: the main variant excludes every known condition, variant k assumes condition k
	assumeKnowns := func(st *State, recv Value, args []Value) {
		for k, c := range knowns {
			g := ex.inline(clauseFn2(v, b, c), nil, pk, nil, recv, args, st, &ast.CallExpr{}).(*Term)
			if variant == 0 {
				ex.assume(st, ex.ts.Not(g))
			} else if variant-1 == k {
				ex.assume(st, g)
			}
		}
	}
	clauseFn := func(c *Clause) *FuncInfo {
		fi := v.prog.FuncByKey[funcKey(b.Pkg, b.Recv, c.Name)]
		if fi == nil {
			unsupported("generated clause function %s missing", c.Name)
		}
		return fi
	}
	ex.binding = bd
	mkArg := func(n string, t types.Type) Value {
		return ex.symbolicValue(n, t)
	}
	site := &ast.CallExpr{}

	switch b.Kind {
	case "lemma":
		if len(enss) == 0 {
			unsupported("lemma without ensures")
		}
		sig := clauseFn(enss[0]).Obj.Type().(*types.Signature)
		var args []Value
		for i := 0; i < sig.Params().Len(); i++ {
			p := sig.Params().At(i)
			args = append(args, mkArg(p.Name(), p.Type()))
		}
		st := ex.newState()
		for _, c := range reqs {
			g := ex.inline(clauseFn(c), nil, pk, nil, nil, args, st, site).(*Term)
			ex.assume(st, g)
		}
		assumeKnowns(st, nil, args)
		nReqFacts := len(ex.facts)
		applyUses(st, nil, args)
		for j, c := range enss {
			s2 := st.fork(st.pc)
			g := ex.inline(clauseFn(c), nil, pk, nil, nil, args, s2, site).(*Term)
			ex.assertNamed(s2, fmt.Sprintf("ensures.%d", j), g, "ensures "+c.Text)
		}
		tr.finish(v, ex, nReqFacts)
	case "func":
		fi := v.prog.FuncByKey[funcKey(b.Pkg, b.Recv, b.Name)]
		if fi == nil {
			unsupported("function %s not found in %s (renamed or removed?)", b.Key(), b.Pkg)
		}
		sig := fi.Obj.Type().(*types.Signature)
		// the contract header must match the real signature
		hdrParams := b.ParamNames()
		if len(hdrParams) != sig.Params().Len() {
			unsupported("contract header of %s has %d parameters, function has %d", b.Key(), len(hdrParams), sig.Params().Len())
		}
		if sig.Results().Len() != len(b.ResultNames()) {
			unsupported("contract header of %s must name all %d results", b.Key(), sig.Results().Len())
		}
		var recv Value
		if sig.Recv() != nil {
			rn := b.RecvName()
			if rn == "" {
				rn = "recv"
			}
			recv = mkArg(rn, sig.Recv().Type())
		}
		var args []Value
		for i := 0; i < sig.Params().Len(); i++ {
			args = append(args, mkArg(hdrParams[i], sig.Params().At(i).Type()))
		}
		st := ex.newState()
		for _, c := range reqs {
			g := ex.inline(clauseFn(c), nil, pk, nil, recv, args, st, site).(*Term)
			ex.assume(st, g)
		}
		if variant == -1 {
			// the case split must cover everything the precondition admits
			tr.Name += "#split-covers-requires"
			ex.target = tr.Name
			spl, _ := b.splits()
			for _, sp := range spl {
				found := false
				for _, in := range ex.inputs {
					if in.Name != sp.Var || in.Term == nil {
						continue
					}
					found = true
					t := in.Term
					w, signed, _ := intInfo(in.Type)
					lo, hi := ex.ts.BV(uint64(sp.Lo), w), ex.ts.BV(uint64(sp.Hi), w)
					var g *Term
					if signed {
						g = ex.ts.And(ex.ts.BVCmp(OpBVSle, lo, t), ex.ts.BVCmp(OpBVSle, t, hi))
					} else {
						g = ex.ts.And(ex.ts.BVCmp(OpBVUle, lo, t), ex.ts.BVCmp(OpBVUle, t, hi))
					}
					ex.assertNamed(st, "split."+sp.Var, g, fmt.Sprintf("requires implies %s in %d..%d", sp.Var, sp.Lo, sp.Hi))
				}
				if !found {
					unsupported("split variable %s is not an input of %s", sp.Var, b.Key())
				}
			}
			tr.finish(v, ex, len(ex.facts))
			return tr
		}
		assumeKnowns(st, recv, args)
		nReqFacts := len(ex.facts)
		applyUses(st, recv, args)
		pre := st.fork(st.pc)
		ex.oldState = pre
		ex.recursing = &recursion{blk: b, fi: fi, entry: append([]Value(nil), args...)}
		rv := ex.inline(fi, nil, fi.Pkg, nil, recv, args, st, site)
		ex.recursing = nil
		var res []Value
		switch x := rv.(type) {
		case nil:
		case *TupleV:
			res = x.Vals
		default:
			res = []Value{x}
		}
		ex.cover(st, "function-exit")
		if !st.pc.IsFalse() {
			all := append(append([]Value(nil), args...), res...)
			for j, c := range enss {
				s2 := st.fork(st.pc)
				g := ex.inline(clauseFn(c), nil, pk, nil, recv, all, s2, site).(*Term)
				ex.assertNamed(s2, fmt.Sprintf("ensures.%d", j), g, "ensures "+c.Text)
			}
		}
		tr.finish(v, ex, nReqFacts)
	default:
		unsupported("block kind %s cannot be verified", b.Kind)
	}
	return tr
}

func (ex *Exec) assertNamed(st *State, kind string, goal *Term, note string) {
	name := ex.target + "#" + kind
	ex.obls = append(ex.obls, &Obligation{Name: name, Kind: kind, NFacts: len(ex.facts), PC: st.pc, Goal: goal, Note: note})
}

// finish discharges the obligations plus the vacuity guards.
func (tr *TargetResult) finish(v *Verifier, ex *Exec, nReqFacts int) {
	// cover: requires satisfiable
	asserts := append([]*Term(nil), ex.facts[:nReqFacts]...)
	if len(asserts) == 0 {
		tr.Cover = "sat"
	} else {
		sr := Solve("(set-option :produce-models true)\n"+ex.ts.SMTScript(asserts, nil, ""), v.Timeout, nil)
		tr.Cover = sr.Status
	}
	// The vacuity guards only ever act on an "unsat" answer; contradictions are found quickly or
	// not at all, while a "sat" answer is out of reach with quantified facts. They run beside the
	// obligations with a short budget.
	guardT := v.Timeout
	if guardT > 20*time.Second {
		guardT = 20 * time.Second
	}
	type cres struct {
		name string
		dead bool
	}
	// scripts are generated before anything runs concurrently (the term store is not safe for
	// concurrent creation and traversal)
	ch := make(chan cres, len(ex.covers))
	for _, c := range ex.covers {
		asserts := append(append([]*Term(nil), ex.facts[:c.NFacts]...), c.PC)
		script := ex.ts.SMTScriptLocked(&ex.smtMu, asserts, nil)
		go func(c *Cover, script string) {
			sr := Solve(script, guardT, nil)
			ch <- cres{c.Name, sr.Status == "unsat"}
		}(c, script)
	}
	// canary: "false" must not be provable from the collected facts
	canary := make(chan *SolverResult, 1)
	all := append([]*Term(nil), ex.facts...)
	if len(all) > 0 {
		script := ex.ts.SMTScriptLocked(&ex.smtMu, all, nil)
		go func() {
			canary <- Solve(script, guardT, nil)
		}()
	}
	tr.Results = ex.Discharge(v.Timeout, v.Keep)
	for range ex.covers {
		r := <-ch
		if r.dead {
			tr.DeadCovers = append(tr.DeadCovers, r.name)
		}
	}
	sort.Strings(tr.DeadCovers)
	if len(all) == 0 {
		tr.CanaryRefuted = true
	} else {
		sr := <-canary
		tr.CanaryRefuted = sr.Status == "sat"
		if sr.Status != "sat" && sr.Status != "unsat" {
			// undecided canary: rely on the cover check only
			tr.CanaryRefuted = tr.Cover == "sat"
		}
	}
}

func clauseFn2(v *Verifier, b *Block, c *Clause) *FuncInfo {
	fi := v.prog.FuncByKey[funcKey(b.Pkg, b.Recv, c.Name)]
	if fi == nil {
		unsupported("generated clause function %s missing", c.Name)
	}
	return fi
}
