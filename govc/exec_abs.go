package main

// Abstraction features: assumed contracts for functions of other packages, contracts for
// interface methods and function-typed values, abstract (uninterpreted) spec functions,
// recursion through the function's own contract, and the cancellation ghost.

import (
	"go/ast"
	"go/token"
	"go/types"
	"strings"
)

// AbstractIfaceV is an interface value about which nothing is known except its identity.
type AbstractIfaceV struct {
	ID  *Term // BV64 identity
	Typ types.Type
}

func namedKey(t types.Type) (pkgPath, name string, ok bool) {
	n, isN := t.(*types.Named)
	if !isN || n.Obj().Pkg() == nil {
		return "", "", false
	}
	return n.Obj().Pkg().Path(), n.Obj().Name(), true
}

// contractCall applies a contract modularly: requires are obligations, what the contract
// lists under modifies is havocked, results are arbitrary values constrained by ensures.
// lead are the values passed before the declared parameters to the clause functions
// (receiver / self for assume and iface blocks); recv is the receiver when the clause
// functions are methods (func blocks).
func (ex *Exec) contractCall(blk *Block, recv Value, lead []Value, args []Value, resTypes []types.Type, st *State, site *ast.CallExpr) Value {
	key := blk.QName()
	if blk.Kind == "assume" {
		key = "ASSUMED contract of " + blk.RecvPkg + "." + blk.Recv + "." + blk.Name + " (declared in package " + blk.PkgName + ", not verified against its body here)"
		ex.assumptions[key] = true
	} else if blk.Kind == "iface" {
		ex.assumptions["contract of "+blk.Recv+"."+blk.Name+" is required from every implementation (checked only for the implementations that have their own block)"] = true
	} else {
		ex.usedContracts[key] = true
	}
	clauseFn := func(c *Clause) *FuncInfo {
		rk := ""
		if blk.Kind == "func" {
			rk = blk.Recv
		}
		fi := ex.prog.FuncByKey[funcKey(blk.Pkg, rk, c.Name)]
		if fi == nil {
			unsupported("clause function %s of %s not found", c.Name, blk.QName())
		}
		return fi
	}
	call := func(c *Clause, extra []Value) *Term {
		all := append(append(append([]Value(nil), lead...), args...), extra...)
		cf := clauseFn(c)
		ex.suppress++
		v := ex.inline(cf, nil, cf.Pkg, nil, recv, all, st, site)
		ex.suppress--
		t, ok := v.(*Term)
		if !ok {
			unsupported("clause %s did not yield a boolean", c.Name)
		}
		return t
	}
	for _, c := range blk.Clauses {
		if c.Kind == "requires" {
			g := call(c, nil)
			ex.assert(st, "call."+blk.Key()+".requires", g, site.Pos(), "precondition of "+blk.QName()+": "+c.Text)
		}
	}
	// termination measure for recursion through the contract
	if ex.recursing != nil && ex.recursing.blk == blk {
		ex.checkDecreases(blk, recv, lead, args, st, site)
	}
	pre := st.fork(st.pc)
	saveOld := ex.oldState
	// havoc
	ex.modifiesHavoc(blk, recv, lead, args, st)
	ex.havocCancelled(st)
	var res []Value
	for _, rt := range resTypes {
		res = append(res, ex.havocValue(blk.Key()+".ret", rt, st))
	}
	ex.oldState = pre
	resG := res
	// ghost variables of the callee: instantiated with the caller's ghost of the same type
	// (pointwise reasoning), otherwise with an arbitrary value
	var restore []func()
	for _, g := range blk.Ghosts {
		gl := ex.ghostLoc(blk.Pkg, g[0])
		if gl == nil {
			continue
		}
		var inst Value
		// ghostarg Callee name = expr: the block under verification supplies the ghost explicitly
		if ex.curBlock != nil && ex.curBlock != blk && len(ex.frames) == 2 {
			for _, c := range ex.curBlock.Clauses {
				if c.Kind != "ghostarg" {
					continue
				}
				f := strings.Fields(c.Text)
				eq := strings.Index(c.Text, "=")
				if len(f) < 4 || eq < 0 || f[2] != "=" {
					unsupported("ghostarg clause wants 'Callee name = expr': %q", c.Text)
				}
				if f[0] != blk.Key() || f[1] != g[0] {
					continue
				}
				e, err := ex.prog.CheckExprAt(ex.cur().pkg, site.Pos(), strings.TrimSpace(c.Text[eq+1:]))
				if err != nil {
					unsupported("ghostarg %s does not type-check at %s: %v", c.Text, ex.pos(site.Pos()), err)
				}
				ex.suppress++
				inst = ex.convertAssign(ex.eval(e, st), gl.Typ, st)
				ex.suppress--
			}
		}
		if inst == nil && ex.curBlock != nil && ex.curBlock != blk {
			for _, cg := range ex.curBlock.Ghosts {
				if cg[1] == g[1] && ex.curBlock.Pkg == blk.Pkg {
					if cl := ex.ghostLoc(ex.curBlock.Pkg, cg[0]); cl != nil {
						inst = ex.load(st, cl)
					}
				}
			}
		}
		if inst == nil {
			inst = ex.havocValue(blk.Key()+".ghost."+g[0], gl.Typ, st)
		}
		prev, had := st.store[gl]
		st.store[gl] = inst
		restore = append(restore, func() {
			if had {
				st.store[gl] = prev
			} else {
				delete(st.store, gl)
			}
		})
	}
	// witnesses: some value exists for which the ensures clauses hold
	for _, w := range blk.Witnesses {
		gl := ex.ghostLoc(blk.Pkg, w[0])
		if gl == nil {
			continue
		}
		prev, had := st.store[gl]
		st.store[gl] = ex.havocValue(blk.Key()+".witness."+w[0], gl.Typ, st)
		restore = append(restore, func() {
			if had {
				st.store[gl] = prev
			} else {
				delete(st.store, gl)
			}
		})
	}
	for _, c := range blk.Clauses {
		if c.Kind == "ensures" {
			ex.assume(st, call(c, resG))
		}
	}
	ex.oldState = saveOld
	for _, f := range restore {
		f()
	}
	switch len(res) {
	case 0:
		return nil
	case 1:
		return res[0]
	}
	return &TupleV{Vals: res}
}

// ghostLoc: the location of a ghost variable (a package-level variable of the overlay).
func (ex *Exec) ghostLoc(pkgPath, name string) *Loc {
	pk := ex.prog.Pkgs[pkgPath]
	if pk == nil {
		return nil
	}
	v, ok := pk.Types.Scope().Lookup(name).(*types.Var)
	if !ok {
		return nil
	}
	return ex.globalLoc(v, nil)
}

func (ex *Exec) modifiesHavoc(blk *Block, recv Value, lead []Value, args []Value, st *State) {
	for _, c := range blk.Clauses {
		if c.Kind != "modifies" {
			continue
		}
		for _, what := range strings.FieldsFunc(c.Text, func(r rune) bool { return r == ',' || r == ' ' }) {
			// forms: p (whole pointee), p.f (one field of the pointee), *p.f (what the pointer field p.f points to)
			deref := strings.HasPrefix(what, "*")
			what = strings.TrimPrefix(what, "*")
			parts := strings.Split(what, ".")
			var target Value
			switch {
			case parts[0] == blk.RecvName() && blk.RecvName() != "":
				if recv != nil {
					target = recv
				} else if len(lead) > 0 {
					target = lead[0]
				}
			case parts[0] == "self" && len(lead) > 0:
				target = lead[0]
			default:
				for i, n := range blk.ParamNames() {
					if n == parts[0] && i < len(args) {
						target = args[i]
					}
				}
			}
			pv, ok := target.(*PtrV)
			if !ok || pv.Nil {
				unsupported("modifies %s in %s: not a pointer parameter", what, blk.QName())
			}
			if len(pv.Path) != 0 {
				unsupported("modifies through an interior pointer")
			}
			if len(parts) == 1 {
				st.store[pv.Loc] = ex.havocValue(blk.Key()+"."+what, pv.Loc.Typ, st)
				continue
			}
			// one field
			stt, isS := pv.Loc.Typ.Underlying().(*types.Struct)
			if !isS || len(parts) != 2 {
				unsupported("modifies %s: only p, p.f and *p.f are supported", what)
			}
			fidx := -1
			for i := 0; i < stt.NumFields(); i++ {
				if stt.Field(i).Name() == parts[1] {
					fidx = i
				}
			}
			if fidx < 0 {
				unsupported("modifies %s: no such field", what)
			}
			cur := ex.load(st, pv.Loc).(*StructV)
			if deref {
				fp, isP := cur.Fields[fidx].(*PtrV)
				if !isP || fp.Nil || len(fp.Path) != 0 {
					unsupported("modifies *%s: field is not a plain pointer", what)
				}
				st.store[fp.Loc] = ex.havocValue(blk.Key()+"."+what, fp.Loc.Typ, st)
				continue
			}
			nv := &StructV{Fields: append([]Value(nil), cur.Fields...)}
			nv.Fields[fidx] = ex.havocValue(blk.Key()+"."+what, stt.Field(fidx).Type(), st)
			st.store[pv.Loc] = nv
		}
	}
}

type recursion struct {
	blk   *Block
	fi    *FuncInfo
	entry []Value // entry values of receiver + parameters
}

func (ex *Exec) checkDecreases(blk *Block, recv Value, lead []Value, args []Value, st *State, site *ast.CallExpr) {
	var dec *Clause
	for _, c := range blk.Clauses {
		if c.Kind == "decreases" {
			dec = c
		}
	}
	if dec == nil {
		ex.assumptions["termination of the recursion of "+blk.QName()+" is not proved (no decreases clause)"] = true
		return
	}
	// the measure is a single integer parameter
	name := strings.TrimSpace(dec.Text)
	for i, n := range blk.ParamNames() {
		if n == name {
			cur, ok1 := args[i].(*Term)
			old, ok2 := ex.recursing.entry[i].(*Term)
			if ok1 && ok2 {
				g := ex.ts.And(ex.ts.BVCmp(OpBVSle, ex.ts.BV(0, cur.Sort.W), cur), ex.ts.BVCmp(OpBVSlt, cur, old))
				ex.assert(st, "decreases."+blk.Key(), g, site.Pos(), "measure "+name+" decreases and stays non-negative")
				return
			}
		}
	}
	unsupported("decreases clause %q of %s must name an integer parameter", dec.Text, blk.QName())
}

// ---- cancellation ghost ----

func (ex *Exec) cancelLoc() *Loc {
	if ex.cancelL == nil {
		ex.cancelL = ex.newLoc("ghost.cancelled", nil)
		ex.escaped[ex.cancelL] = true
		ex.base[ex.cancelL] = ex.ts.Var("ghost.cancelled.entry", BoolSort)
	}
	return ex.cancelL
}

// pollCancelled: the flag may have risen since the last look; it never falls.
func (ex *Exec) pollCancelled(st *State) *Term {
	ex.havocCancelled(st)
	return ex.load(st, ex.cancelLoc()).(*Term)
}

func (ex *Exec) havocCancelled(st *State) {
	if !ex.cancelModel {
		return
	}
	l := ex.cancelLoc()
	old := ex.load(st, l).(*Term)
	nw := ex.ts.Fresh("ghost.cancelled", BoolSort)
	ex.assume(st, ex.ts.Implies(old, nw))
	st.store[l] = nw
}

// ---- abstract values of interface / function type ----

func (ex *Exec) abstractValue(name string, t types.Type, fresh bool) Value {
	var id *Term
	if fresh {
		id = ex.ts.Fresh(name, BVSort(64))
	} else {
		id = ex.ts.Var(name, BVSort(64))
	}
	if _, ok := t.Underlying().(*types.Signature); ok {
		return &FuncV{AbstractID: id, AbsType: t}
	}
	return &AbstractIfaceV{ID: id, Typ: t}
}

func (ex *Exec) callAbstractIface(r *AbstractIfaceV, f *FuncV, args []Value, st *State, site *ast.CallExpr) Value {
	pp, tn, ok := namedKey(r.Typ)
	if !ok {
		unsupported("call on unnamed interface type %s", r.Typ)
	}
	blk := ex.prog.Ifaces[pp+"."+tn+"."+f.Obj.Name()]
	if blk == nil {
		unsupported("interface method %s.%s has no iface contract (call at %s)", tn, f.Obj.Name(), ex.pos(site.Pos()))
	}
	sig := f.Obj.Type().(*types.Signature)
	var rts []types.Type
	for i := 0; i < sig.Results().Len(); i++ {
		rts = append(rts, sig.Results().At(i).Type())
	}
	return ex.contractCall(blk, nil, []Value{r}, args, rts, st, site)
}

// callAbstractFunc: a function value of unknown identity. With an iface block for its named
// type the contract is used; otherwise it is a pure function of its identity and arguments.
func (ex *Exec) callAbstractFunc(f *FuncV, args []Value, st *State, site *ast.CallExpr) Value {
	sig := f.AbsType.Underlying().(*types.Signature)
	var rts []types.Type
	for i := 0; i < sig.Results().Len(); i++ {
		rts = append(rts, sig.Results().At(i).Type())
	}
	if pp, tn, ok := namedKey(f.AbsType); ok {
		if blk := ex.prog.Ifaces[pp+"."+tn+"."]; blk != nil {
			return ex.contractCall(blk, nil, []Value{f}, args, rts, st, site)
		}
		ex.assumptions["function values of type "+tn+" are pure: the result depends only on the function value and the arguments"] = true
	}
	leaves := []*Term{f.AbstractID}
	for _, a := range args {
		ex.flattenAny(a, st, &leaves)
	}
	var res []Value
	for i, rt := range rts {
		res = append(res, ex.ufResult("apply."+types.TypeString(f.AbsType, func(p *types.Package) string { return p.Name() })+"."+itoa(i), rt, leaves, st))
	}
	switch len(res) {
	case 0:
		return nil
	case 1:
		return res[0]
	}
	return &TupleV{Vals: res}
}

// flattenAny lists the scalar leaves of an argument for an uninterpreted application.
func (ex *Exec) flattenAny(v Value, st *State, out *[]*Term) {
	switch x := v.(type) {
	case *Term:
		*out = append(*out, x)
	case *StrV:
		*out = append(*out, ex.strTerm(x))
	case *StructV:
		for _, f := range x.Fields {
			ex.flattenAny(f, st, out)
		}
	case *ArrayV:
		for _, e := range x.Elems {
			ex.flattenAny(e, st, out)
		}
	case *PtrV:
		if x.Nil {
			*out = append(*out, ex.ts.BV(0, 64))
			return
		}
		ex.flattenAny(ex.getPath(ex.load(st, x.Loc), x.Path, st, token.NoPos), st, out)
	case *HeapRefV:
		*out = append(*out, x.Ref)
		for _, l := range x.Cls.locs {
			*out = append(*out, ex.load(st, l).(*Term))
		}
	case *MapV:
		if !x.Nil {
			*out = append(*out, x.Val)
		}
	case *SymSliceV:
		*out = append(*out, x.Len)
		*out = append(*out, x.Arrs...)
	case *SliceV:
		if !x.Nil {
			ex.flattenAny(ex.toSym(st, x, x.Loc.Typ.(*types.Array).Elem()), st, out)
		} else {
			*out = append(*out, ex.ts.BV(0, 64))
		}
	case *AbstractIfaceV:
		*out = append(*out, x.ID)
	case *FuncV:
		if x.AbstractID != nil {
			*out = append(*out, x.AbstractID)
		}
	case *IfaceV:
		if !x.Nil {
			ex.flattenAny(x.V, st, out)
		}
	case *OpaqueTokV:
		*out = append(*out, x.ID)
	case *OpaqueV, *UFArrayV, nil:
	default:
		unsupported("argument of kind %T in an uninterpreted application", v)
	}
}

// ufResult builds a value of type t whose scalar leaves are uninterpreted functions of args.
func (ex *Exec) ufResult(name string, t types.Type, args []*Term, st *State) Value {
	if s, ok := scalarSort(t); ok {
		return ex.ts.App(name, s, args...)
	}
	if isString(t) {
		return &StrV{T: ex.ts.App(name, IntSort, args...)}
	}
	switch u := t.Underlying().(type) {
	case *types.Struct:
		sv := &StructV{Fields: make([]Value, u.NumFields())}
		for i := range sv.Fields {
			sv.Fields[i] = ex.ufResult(name+"."+u.Field(i).Name(), u.Field(i).Type(), args, st)
		}
		return sv
	case *types.Map:
		ks, vs := ex.mapSorts(u)
		return &MapV{Val: ex.ts.App(name, ArraySort(ks, vs), args...), T: u}
	case *types.Signature:
		return &FuncV{AbstractID: ex.ts.App(name, BVSort(64), args...), AbsType: t}
	case *types.Interface:
		return &AbstractIfaceV{ID: ex.ts.App(name, BVSort(64), args...), Typ: t}
	}
	unsupported("uninterpreted function with result type %s", t)
	return nil
}

// OpaqueTokV is the whole state of an object of an abstract type: nothing but an identity
// that changes whenever a contract says the object is modified.
type OpaqueTokV struct {
	ID *Term
}

func (ex *Exec) isAbstractType(t types.Type) bool {
	n, ok := t.(*types.Named)
	if !ok || n.Obj().Pkg() == nil {
		return false
	}
	at := ex.prog.AbstractTypes[ex.targetPkg]
	return at != nil && at[n.Obj().Pkg().Name()+"."+n.Obj().Name()]
}
