package main

// Frame / ownership obligations that are decided on the typed AST of the package:
//   //@ immutable T  prop ...        no store to a field of T outside composite literals
//   //@ atomic-only T.f  prop ...    field f of T is touched only through sync/atomic
//   //@ no-mutable-globals prop ...   no package-level variable of the package is assigned (whole,
//                                     element or field) outside initialisers and init functions,
//                                     and none holds a map, channel or function value
// Each directive yields one obligation per offending site (or one discharged obligation
// when there is none); nothing is executed symbolically.

import (
	"fmt"
	"go/ast"
	"go/token"
	"go/types"
	"strings"

	"golang.org/x/tools/go/packages"
)

type SynDirective struct {
	Kind  string // immutable | atomic-only
	Pkg   string
	Type  string
	Field string
	Props []string
	File  string
	Line  int
}

type SynResult struct {
	Name   string
	OK     bool
	Sites  []string
	Detail string
}

func parseSynDirectives(path, pkgPath string, lines []string) []*SynDirective {
	var out []*SynDirective
	for i, raw := range lines {
		t := strings.TrimSpace(raw)
		for _, kind := range []string{"immutable", "atomic-only", "no-mutable-globals"} {
			pfx := "//@ " + kind + " "
			if !strings.HasPrefix(t, pfx) {
				continue
			}
			rest := " " + strings.TrimPrefix(t, pfx)
			d := &SynDirective{Kind: kind, Pkg: pkgPath, File: path, Line: i + 1}
			if idx := strings.Index(rest, " prop "); idx >= 0 {
				for _, p := range strings.FieldsFunc(rest[idx+6:], func(r rune) bool { return r == ',' || r == ' ' }) {
					d.Props = append(d.Props, p)
				}
				rest = rest[:idx]
			}
			rest = strings.TrimSpace(rest)
			if dot := strings.Index(rest, "."); dot >= 0 {
				d.Type, d.Field = rest[:dot], rest[dot+1:]
			} else {
				d.Type = rest
			}
			out = append(out, d)
		}
	}
	return out
}

func (p *Prog) checkSyntactic(d *SynDirective) *SynResult {
	pk := p.Pkgs[d.Pkg]
	if d.Kind == "no-mutable-globals" {
		res := &SynResult{Name: fmt.Sprintf("%s#no-mutable-globals", pk.Name), OK: true}
		scope := pk.Types.Scope()
		for _, name := range scope.Names() {
			v, ok := scope.Lookup(name).(*types.Var)
			if !ok {
				continue
			}
			if ps := p.Fset.Position(v.Pos()); strings.HasSuffix(ps.Filename, overlayName) {
				continue
			}
			for _, w := range p.Written[v] {
				res.OK = false
				res.Sites = append(res.Sites, fmt.Sprintf("%s written at %s:%d", name, shortPath(w.Filename), w.Line))
			}
			switch v.Type().Underlying().(type) {
			case *types.Map, *types.Chan, *types.Signature:
				res.OK = false
				res.Sites = append(res.Sites, fmt.Sprintf("%s holds a %s", name, v.Type().Underlying().String()))
			}
		}
		return res
	}
	res := &SynResult{Name: fmt.Sprintf("%s.%s#%s", pk.Name, d.Type, d.Kind), OK: true}
	if d.Field != "" {
		res.Name = fmt.Sprintf("%s.%s.%s#%s", pk.Name, d.Type, d.Field, d.Kind)
	}
	obj := pk.Types.Scope().Lookup(d.Type)
	if obj == nil {
		res.OK = false
		res.Detail = "type " + d.Type + " not found"
		return res
	}
	named, _ := obj.Type().(*types.Named)
	isT := func(t types.Type) bool {
		if pt, ok := t.(*types.Pointer); ok {
			t = pt.Elem()
		}
		n, ok := t.(*types.Named)
		return ok && named != nil && n.Obj() == named.Obj()
	}
	pos := func(n ast.Node) string {
		ps := p.Fset.Position(n.Pos())
		return fmt.Sprintf("%s:%d", shortPath(ps.Filename), ps.Line)
	}
	switch d.Kind {
	case "immutable":
		for _, f := range pk.Syntax {
			if strings.HasSuffix(p.Fset.Position(f.Pos()).Filename, overlayName) {
				continue
			}
			ast.Inspect(f, func(n ast.Node) bool {
				var lhs []ast.Expr
				switch s := n.(type) {
				case *ast.AssignStmt:
					lhs = s.Lhs
				case *ast.IncDecStmt:
					lhs = []ast.Expr{s.X}
				case *ast.UnaryExpr:
					if s.Op == token.AND {
						// taking the address of a field allows later stores
						lhs = []ast.Expr{s.X}
					}
				}
				for _, l := range lhs {
					if storesIntoType(pk, l, isT) {
						res.OK = false
						res.Sites = append(res.Sites, pos(l))
					}
				}
				return true
			})
		}
	case "atomic-only":
		for _, f := range pk.Syntax {
			if strings.HasSuffix(p.Fset.Position(f.Pos()).Filename, overlayName) {
				continue
			}
			var stack []ast.Node
			ast.Inspect(f, func(n ast.Node) bool {
				if n == nil {
					stack = stack[:len(stack)-1]
					return true
				}
				stack = append(stack, n)
				sel, ok := n.(*ast.SelectorExpr)
				if !ok || sel.Sel.Name != d.Field {
					return true
				}
				s := pk.TypesInfo.Selections[sel]
				if s == nil || s.Kind() != types.FieldVal || !isT(s.Recv()) {
					return true
				}
				if !atomicContext(pk, stack) {
					res.OK = false
					res.Sites = append(res.Sites, pos(sel))
				}
				return true
			})
		}
	}
	return res
}

// storesIntoType: does the lvalue select (directly or through indexing) a field of the type?
func storesIntoType(pk *packages.Package, e ast.Expr, isT func(types.Type) bool) bool {
	for {
		switch x := e.(type) {
		case *ast.ParenExpr:
			e = x.X
		case *ast.IndexExpr:
			e = x.X
		case *ast.SelectorExpr:
			if s := pk.TypesInfo.Selections[x]; s != nil && s.Kind() == types.FieldVal && isT(s.Recv()) {
				return true
			}
			e = x.X
		case *ast.StarExpr:
			if tv, ok := pk.TypesInfo.Types[x.X]; ok && isT(tv.Type) {
				return true // *p = ... overwrites the whole object
			}
			return false
		default:
			return false
		}
	}
}

// atomicContext: the selector (innermost on the stack) is used in one of the allowed ways:
// len(x.f), a method call on an atomic type (x.f.Load()), &x.f[...] or &x.f flowing (through
// unsafe.Pointer conversions) into a sync/atomic function, or as a key of a composite literal.
func atomicContext(pk *packages.Package, stack []ast.Node) bool {
	n := len(stack)
	sel := stack[n-1].(*ast.SelectorExpr)
	if tv, ok := pk.TypesInfo.Types[sel]; ok {
		if nt, ok := tv.Type.(*types.Named); ok && nt.Obj().Pkg() != nil && nt.Obj().Pkg().Path() == "sync/atomic" {
			// a value of an atomic type: only method calls are possible on it
			if n >= 2 {
				if ps, ok := stack[n-2].(*ast.SelectorExpr); ok && ps.X == sel {
					return true
				}
			}
			return false
		}
	}
	// walk outwards
	i := n - 2
	cur := ast.Node(sel)
	if i >= 0 {
		if ix, ok := stack[i].(*ast.IndexExpr); ok && ix.X == cur {
			cur = ix
			i--
		}
	}
	if i >= 0 {
		if call, ok := stack[i].(*ast.CallExpr); ok {
			if id, ok := call.Fun.(*ast.Ident); ok && (id.Name == "len" || id.Name == "cap") && len(call.Args) == 1 && call.Args[0] == cur {
				return true
			}
		}
	}
	if i < 0 {
		return false
	}
	u, ok := stack[i].(*ast.UnaryExpr)
	if !ok || u.Op != token.AND || u.X != cur {
		return false
	}
	cur = u
	i--
	// through conversions to unsafe.Pointer / *unsafe.Pointer and parentheses
	for i >= 0 {
		switch x := stack[i].(type) {
		case *ast.ParenExpr:
			cur = x
			i--
			continue
		case *ast.CallExpr:
			if tv, ok := pk.TypesInfo.Types[x.Fun]; ok && tv.IsType() && len(x.Args) == 1 && x.Args[0] == cur {
				cur = x
				i--
				continue
			}
			// a real call: must be sync/atomic
			if se, ok := x.Fun.(*ast.SelectorExpr); ok {
				if fn, ok := pk.TypesInfo.Uses[se.Sel].(*types.Func); ok && fn.Pkg() != nil && fn.Pkg().Path() == "sync/atomic" {
					return true
				}
			}
			return false
		case *ast.AssignStmt:
			// addr := (*unsafe.Pointer)(unsafe.Pointer(&t.table[key])): every later use of the variable must be atomic
			if len(x.Lhs) == 1 && len(x.Rhs) == 1 && x.Rhs[0] == cur {
				if id, ok := x.Lhs[0].(*ast.Ident); ok {
					return onlyAtomicUses(pk, stack, id)
				}
			}
			return false
		}
		return false
	}
	return false
}

// onlyAtomicUses: within the enclosing function, the variable is only passed to sync/atomic functions.
func onlyAtomicUses(pk *packages.Package, stack []ast.Node, id *ast.Ident) bool {
	obj := pk.TypesInfo.Defs[id]
	if obj == nil {
		obj = pk.TypesInfo.Uses[id]
	}
	var fn *ast.FuncDecl
	for i := len(stack) - 1; i >= 0; i-- {
		if f, ok := stack[i].(*ast.FuncDecl); ok {
			fn = f
			break
		}
	}
	if fn == nil || obj == nil {
		return false
	}
	ok := true
	var st []ast.Node
	ast.Inspect(fn.Body, func(n ast.Node) bool {
		if n == nil {
			st = st[:len(st)-1]
			return true
		}
		st = append(st, n)
		u, isId := n.(*ast.Ident)
		if !isId || pk.TypesInfo.Uses[u] != obj {
			return true
		}
		// parent must be a call to sync/atomic with u as an argument
		if len(st) >= 2 {
			if call, isCall := st[len(st)-2].(*ast.CallExpr); isCall {
				if se, isSel := call.Fun.(*ast.SelectorExpr); isSel {
					if f, isFn := pk.TypesInfo.Uses[se.Sel].(*types.Func); isFn && f.Pkg() != nil && f.Pkg().Path() == "sync/atomic" {
						return true
					}
				}
			}
		}
		ok = false
		return true
	})
	return ok
}
