package main

// Replay of solver counterexamples on the real code: the model is turned into an
// in-package Go test that is injected with `go test -overlay` (nothing is written
// into /repo); the contract clauses are executed as real Go.

import (
	"encoding/json"
	"fmt"
	"go/types"
	"math"
	"os"
	"os/exec"
	"path/filepath"
	"regexp"
	"sort"
	"strconv"
	"strings"
	"time"
)

type Replay struct {
	Property   string            `json:"property"`
	Obligation string            `json:"obligation"`
	Clause     string            `json:"clause"`
	Position   string            `json:"position"`
	Status     string            `json:"solver_status"`
	Solver     string            `json:"solver"`
	Model      map[string]string `json:"model"`
	PkgDir     string            `json:"package_dir"`
	TestSource string            `json:"go_test_source"`
	Overlay    string            `json:"spec_overlay_source"`
	Output     string            `json:"observed_output"`
	Confirmed  bool              `json:"confirmed_on_real_code"`
	Note       string            `json:"note"`
	SolverOut  string            `json:"solver_output"`
}

func readReplay(path string) *Replay {
	data, err := os.ReadFile(path)
	if err != nil {
		return nil
	}
	var r Replay
	if json.Unmarshal(data, &r) != nil {
		return nil
	}
	return &r
}

var fpRe = regexp.MustCompile(`^\(fp (#[xb][0-9a-fA-F]+) (#[xb][0-9a-fA-F]+) (#[xb][0-9a-fA-F]+)\)$`)
var fpSpecRe = regexp.MustCompile(`^\(_ ([+-]?)(oo|zero|NaN) (\d+) (\d+)\)$`)
var bvRe = regexp.MustCompile(`^\(_ bv(\d+) (\d+)\)$`)

func bitsOf(s string) (uint64, int) {
	if strings.HasPrefix(s, "#x") {
		v, _ := strconv.ParseUint(s[2:], 16, 64)
		return v, 4 * (len(s) - 2)
	}
	if strings.HasPrefix(s, "#b") {
		v, _ := strconv.ParseUint(s[2:], 2, 64)
		return v, len(s) - 2
	}
	if m := bvRe.FindStringSubmatch(s); m != nil {
		v, _ := strconv.ParseUint(m[1], 10, 64)
		w, _ := strconv.Atoi(m[2])
		return v, w
	}
	return 0, 0
}

// goLiteral renders a model value as a Go expression of type t.
func goLiteral(val string, t types.Type, qual types.Qualifier) (string, bool) {
	tn := types.TypeString(t, qual)
	if isBool(t) {
		return val, val == "true" || val == "false"
	}
	if w, signed, ok := intInfo(t); ok {
		v, bw := bitsOf(val)
		if bw == 0 {
			return "", false
		}
		if signed {
			return fmt.Sprintf("%s(%d)", tn, signExt(v, w)), true
		}
		return fmt.Sprintf("%s(%#x)", tn, v), true
	}
	if s, ok := isFloat(t); ok {
		eb, sb := 8, 23
		if s == FP64Sort {
			eb, sb = 11, 52
		}
		var bits uint64
		if m := fpRe.FindStringSubmatch(val); m != nil {
			sg, _ := bitsOf(m[1])
			e, _ := bitsOf(m[2])
			f, _ := bitsOf(m[3])
			bits = sg<<uint(eb+sb) | e<<uint(sb) | f
		} else if m := fpSpecRe.FindStringSubmatch(val); m != nil {
			var sg uint64
			if m[1] == "-" {
				sg = 1
			}
			switch m[2] {
			case "zero":
				bits = sg << uint(eb+sb)
			case "oo":
				bits = sg<<uint(eb+sb) | ((uint64(1)<<uint(eb))-1)<<uint(sb)
			case "NaN":
				bits = ((uint64(1)<<uint(eb))-1)<<uint(sb) | 1<<uint(sb-1)
			}
		} else {
			return "", false
		}
		if s == FP32Sort {
			return fmt.Sprintf("%s(math.Float32frombits(%#x)) /* %v */", tn, bits, math.Float32frombits(uint32(bits))), true
		}
		return fmt.Sprintf("%s(math.Float64frombits(%#x)) /* %v */", tn, bits, math.Float64frombits(bits)), true
	}
	return "", false
}

// genReplayTest builds the Go test source for a failed obligation of tr.
func genReplayTest(prog *Prog, tr *TargetResult, r *OblResult) (src string, ok bool, why string) {
	b := tr.Block
	pk := prog.Pkgs[b.Pkg]
	usedPkgs := map[string]string{}
	qual := func(p *types.Package) string {
		if p == pk.Types {
			return ""
		}
		usedPkgs[p.Path()] = p.Name()
		return p.Name()
	}
	var sb strings.Builder
	fmt.Fprintf(&sb, "// Replay of %s\nfunc TestGovcReplay(govcT *testing.T) {\n", r.Obl.Name)
	// declare parameters
	var sig *types.Signature
	var fi *FuncInfo
	if b.Kind == "func" {
		fi = prog.FuncByKey[funcKey(b.Pkg, b.Recv, b.Name)]
		if fi == nil {
			return "", false, "function not found"
		}
		sig = fi.Obj.Type().(*types.Signature)
	} else {
		for _, c := range b.Clauses {
			if c.Kind == "ensures" {
				cf := prog.FuncByKey[funcKey(b.Pkg, b.Recv, c.Name)]
				sig = cf.Obj.Type().(*types.Signature)
				break
			}
		}
	}
	type param struct {
		name string
		typ  types.Type
	}
	var params []param
	recvName := ""
	if b.Kind == "func" && sig.Recv() != nil {
		recvName = b.RecvName()
		if recvName == "" {
			recvName = "recv"
		}
		params = append(params, param{recvName, sig.Recv().Type()})
	}
	names := b.ParamNames()
	for i := 0; i < sig.Params().Len() && i < len(names); i++ {
		params = append(params, param{names[i], sig.Params().At(i).Type()})
	}
	for _, p := range params {
		if pt, isPtr := p.typ.(*types.Pointer); isPtr {
			fmt.Fprintf(&sb, "\t%s := new(%s)\n", p.name, types.TypeString(pt.Elem(), qual))
		} else {
			fmt.Fprintf(&sb, "\tvar %s %s\n", p.name, types.TypeString(p.typ, qual))
		}
		fmt.Fprintf(&sb, "\t_ = %s\n", p.name)
	}

	// assignments from the model
	var ins []*InputVar
	ins = append(ins, tr.Inputs...)
	sort.SliceStable(ins, func(i, j int) bool { return ins[i].Name < ins[j].Name })
	for _, in := range ins {
		if in.UF {
			return "", false, "input " + in.Name + " is an uninterpreted table"
		}
		if strings.HasPrefix(in.Name, "global.") {
			return "", false, "model depends on a mutable global"
		}
		var val string
		if in.Term.IsConst() {
			val = constStr(in.Term)
		} else if mv, have := r.Model[in.Name]; have {
			val = mv
		} else {
			continue // irrelevant input: zero value
		}
		lit, good := goLiteral(val, in.Type, qual)
		if !good {
			if isString(in.Type) {
				return "", false, "string-valued input"
			}
			return "", false, "cannot render " + in.Name + " = " + val
		}
		fmt.Fprintf(&sb, "\t%s = %s\n", in.Name, lit)
	}
	argList := func(ps []param) string {
		var xs []string
		for _, p := range ps {
			xs = append(xs, p.name)
		}
		return strings.Join(xs, ", ")
	}
	callPrefix := ""
	callParams := params
	if recvName != "" {
		callPrefix = recvName + "."
		callParams = params[1:]
	}
	// requires
	sb.WriteString("\treq := true\n")
	for _, c := range b.Clauses {
		if c.Kind == "requires" {
			fmt.Fprintf(&sb, "\treq = req && %s%s(%s)\n", callPrefix, c.Name, argList(callParams))
		}
	}
	sb.WriteString("\tfmt.Printf(\"GOVC-REPLAY requires=%v\\n\", req)\n")
	if b.Kind == "lemma" {
		for j, c := range b.Clauses {
			_ = j
			if c.Kind == "ensures" {
				fmt.Fprintf(&sb, "\tfunc() {\n\t\tdefer func() {\n\t\t\tif p := recover(); p != nil {\n\t\t\t\tfmt.Printf(\"GOVC-REPLAY %s specpanic=%%v\\n\", p)\n\t\t\t}\n\t\t}()\n", c.Name)
				fmt.Fprintf(&sb, "\t\tfmt.Printf(\"GOVC-REPLAY %s=%%v\\n\", %s(%s))\n\t}()\n", c.Name, c.Name, argList(callParams))
			}
		}
	} else {
		// snapshot for old(): deep copy of pointer parameters
		for _, p := range params {
			if _, isPtr := p.typ.(*types.Pointer); isPtr {
				fmt.Fprintf(&sb, "\told_%s := new(%s)\n\t*old_%s = *%s\n\t_ = old_%s\n", p.name, types.TypeString(p.typ.(*types.Pointer).Elem(), qual), p.name, p.name, p.name)
			}
		}
		resNames := b.ResultNames()
		// results live outside the closures: a panic of the real function and a panic inside a
		// (non-executable) spec clause must not be confused
		for i, rn := range resNames {
			fmt.Fprintf(&sb, "\tvar %s %s\n\t_ = %s\n", rn, types.TypeString(sig.Results().At(i).Type(), qual), rn)
		}
		sb.WriteString("\tcalled := false\n")
		sb.WriteString("\tfunc() {\n\t\tdefer func() {\n\t\t\tif p := recover(); p != nil {\n\t\t\t\tfmt.Printf(\"GOVC-REPLAY panic=%v\\n\", p)\n\t\t\t}\n\t\t}()\n")
		call := fmt.Sprintf("%s%s(%s)", callPrefix, b.Name, argList(callParams))
		if len(resNames) > 0 {
			fmt.Fprintf(&sb, "\t\t%s = %s\n", strings.Join(resNames, ", "), call)
			fmt.Fprintf(&sb, "\t\tfmt.Printf(\"GOVC-REPLAY results=%%+v\\n\", []interface{}{%s})\n", strings.Join(resNames, ", "))
		} else {
			fmt.Fprintf(&sb, "\t\t%s\n", call)
		}
		sb.WriteString("\t\tcalled = true\n\t}()\n")
		sb.WriteString("\tif called {\n")
		for _, c := range b.Clauses {
			if c.Kind == "ensures" {
				all := argList(callParams)
				if len(resNames) > 0 {
					if all != "" {
						all += ", "
					}
					all += strings.Join(resNames, ", ")
				}
				if strings.Contains(c.Go, "old(") {
					fmt.Fprintf(&sb, "\t\tfmt.Printf(\"GOVC-REPLAY %s=skipped (uses old)\\n\")\n", c.Name)
					continue
				}
				fmt.Fprintf(&sb, "\t\tfunc() {\n\t\t\tdefer func() {\n\t\t\t\tif p := recover(); p != nil {\n\t\t\t\t\tfmt.Printf(\"GOVC-REPLAY %s specpanic=%%v\\n\", p)\n\t\t\t\t}\n\t\t\t}()\n", c.Name)
				fmt.Fprintf(&sb, "\t\t\tfmt.Printf(\"GOVC-REPLAY %s=%%v\\n\", %s%s(%s))\n\t\t}()\n", c.Name, callPrefix, c.Name, all)
			}
		}
		sb.WriteString("\t}\n")
	}
	sb.WriteString("}\n")
	// header last: the imports are the packages the rendered types mention
	var hd strings.Builder
	fmt.Fprintf(&hd, "package %s\n\nimport (\n\t\"fmt\"\n\t\"math\"\n\t\"testing\"\n", b.PkgName)
	var paths []string
	for pth := range usedPkgs {
		paths = append(paths, pth)
	}
	sort.Strings(paths)
	for _, pth := range paths {
		if pth != "fmt" && pth != "math" && pth != "testing" {
			fmt.Fprintf(&hd, "\t%s %q\n", usedPkgs[pth], pth)
		}
	}
	hd.WriteString(")\n\nvar _ = math.Pi\n\n")
	return hd.String() + sb.String(), true, ""
}

// replayOverlays: every generated contract overlay of the module (a package's spec functions may
// call the exported spec functions of the packages it imports).
var replayOverlays map[string]string

func runReplayTest(root, pkgDir, overlaySrc, testSrc string) (string, error) {
	scratch, err := os.MkdirTemp("", "govc-replay-")
	if err != nil {
		return "", err
	}
	defer os.RemoveAll(scratch)
	ovPath := filepath.Join(scratch, "overlay.go")
	tsPath := filepath.Join(scratch, "replay_test.go")
	os.WriteFile(ovPath, []byte(overlaySrc), 0o644)
	os.WriteFile(tsPath, []byte(testSrc), 0o644)
	ov := map[string]map[string]string{"Replace": {
		filepath.Join(pkgDir, overlayName):               ovPath,
		filepath.Join(pkgDir, "zz_govc_replay_test.go"): tsPath,
	}}
	k := 0
	for pth, src := range replayOverlays {
		if pth == filepath.Join(pkgDir, overlayName) {
			continue
		}
		k++
		op := filepath.Join(scratch, fmt.Sprintf("overlay_%d.go", k))
		os.WriteFile(op, []byte(src), 0o644)
		ov["Replace"][pth] = op
	}
	data, _ := json.Marshal(ov)
	ovJSON := filepath.Join(scratch, "ov.json")
	os.WriteFile(ovJSON, data, 0o644)
	cmd := exec.Command("go", "test", "-overlay", ovJSON, "-tags", "verif", "-vet=off", "-count=1", "-timeout", "60s", "-run", "^TestGovcReplay$", "-v", ".")
	cmd.Dir = pkgDir
	cmd.Env = append(os.Environ(), "GOFLAGS=-mod=mod", "GOPROXY=off", "GOSUMDB=off", "GOTOOLCHAIN=local", "TMPDIR="+scratch)
	done := make(chan struct{})
	var out []byte
	go func() { out, err = cmd.CombinedOutput(); close(done) }()
	select {
	case <-done:
	case <-time.After(150 * time.Second):
		cmd.Process.Kill()
		<-done
	}
	return string(out), err
}

// writeReplay stores the replay file for a failed obligation and tries to confirm it on the real code.
func writeReplay(root, dir string, prog *Prog, tr *TargetResult, r *OblResult) string {
	os.MkdirAll(dir, 0o755)
	path := filepath.Join(dir, sanitize(r.Obl.Name)+".json")
	rp := &Replay{Property: filepath.Base(dir), Obligation: r.Obl.Name, Clause: r.Obl.Note, Position: r.Obl.Pos,
		Status: r.Status, Solver: r.Solver, Model: r.Model, SolverOut: truncate(r.Raw, 4000)}
	b := tr.Block
	pkgDir := filepath.Dir(b.File)
	rp.PkgDir = pkgDir
	if r.Status == "failed" {
		src, ok, why := genReplayTest(prog, tr, r)
		if !ok {
			rp.Note = "no replay generated: " + why
		} else {
			rp.TestSource = src
			rp.Overlay = prog.Overlays[filepath.Join(pkgDir, overlayName)]
			replayOverlays = prog.Overlays
			out, _ := runReplayTest(root, pkgDir, rp.Overlay, src)
			rp.Output = truncate(out, 6000)
			rp.Confirmed, rp.Note = judgeReplay(out, r)
		}
	} else {
		rp.Note = "solver gave no model (" + r.Status + "); the obligation discharged on the unchanged tree (baseline) and does not any more"
	}
	data, _ := json.MarshalIndent(rp, "", " ")
	os.WriteFile(path, append(data, '\n'), 0o644)
	return path
}

// judgeReplay decides whether the observed run exhibits the violation.
func judgeReplay(out string, r *OblResult) (bool, string) {
	if !strings.Contains(out, "GOVC-REPLAY requires=true") {
		if strings.Contains(out, "GOVC-REPLAY requires=false") {
			return false, "model does not satisfy the preconditions when executed (spurious)"
		}
		return false, "replay did not run (build failure or crash before the call)"
	}
	kind := r.Obl.Kind
	if strings.HasPrefix(kind, "safety") {
		if strings.Contains(out, "GOVC-REPLAY panic=") {
			return true, "the real function panics on this input"
		}
		return false, "no panic observed on the real code"
	}
	if strings.HasPrefix(kind, "ensures.") {
		n := strings.TrimPrefix(kind, "ensures.")
		if regexp.MustCompile(`GOVC-REPLAY \S*ens` + n + `=false`).MatchString(out) {
			return true, "postcondition evaluates to false on the real code's result"
		}
		if strings.Contains(out, "GOVC-REPLAY panic=") {
			return true, "the real function panics on this input"
		}
		if regexp.MustCompile(`GOVC-REPLAY \S*ens` + n + ` specpanic=`).MatchString(out) {
			return false, "the violated clause is not executable (quantifier over an unbounded domain); no failing input could be confirmed"
		}
		if regexp.MustCompile(`GOVC-REPLAY \S*ens` + n + `=true`).MatchString(out) {
			return false, "postcondition holds when executed (counterexample is spurious: a callee contract or abstraction is weaker than the code)"
		}
	}
	return false, "replay inconclusive"
}

func truncate(s string, n int) string {
	if len(s) > n {
		return s[:n] + "\n...[truncated]"
	}
	return s
}

func rerunReplay(root, path string) int {
	rp := readReplay(path)
	if rp == nil {
		fmt.Fprintln(os.Stderr, "cannot read replay file", path)
		return 2
	}
	fmt.Printf("obligation: %s\nclause: %s\nsolver: %s (%s)\n", rp.Obligation, rp.Clause, rp.Solver, rp.Status)
	if rp.TestSource == "" {
		fmt.Println("no executable replay:", rp.Note)
		fmt.Println(rp.SolverOut)
		return 1
	}
	// the overlays of the other packages are regenerated from the current contract files
	if prog, err := LoadProg(root); err == nil {
		replayOverlays = prog.Overlays
	}
	out, _ := runReplayTest(root, rp.PkgDir, rp.Overlay, rp.TestSource)
	fmt.Println(out)
	reproduced := strings.Contains(out, "GOVC-REPLAY requires=true") &&
		(regexp.MustCompile(`GOVC-REPLAY \S*(ens|lemma)\S*=false`).MatchString(out) || strings.Contains(out, "GOVC-REPLAY panic="))
	if reproduced {
		fmt.Printf("VIOLATION property=%s replay=%s\n", rp.Property, path)
		return 1
	}
	return 0
}
