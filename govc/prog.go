package main

// Loading of /repo's current working tree with the verif tag and the generated overlay.

import (
	"fmt"
	"go/ast"
	"go/parser"
	"go/token"
	"go/types"
	"os"
	"path/filepath"
	"sort"
	"strings"
	"sync"

	"golang.org/x/tools/go/packages"
)

type FuncInfo struct {
	Obj  *types.Func
	Decl *ast.FuncDecl
	Pkg  *packages.Package
}

type GlobalInit struct {
	Pkg  *packages.Package
	Spec *ast.ValueSpec
	Idx  int
}

type Prog struct {
	Root      string
	Fset      *token.FileSet
	Pkgs      map[string]*packages.Package
	Funcs     map[*types.Func]*FuncInfo
	FuncByKey map[string]*FuncInfo // "pkgpath.Recv.Name" or "pkgpath.Name"
	Blocks    map[string]*Block    // same key
	BlockList []*Block
	Lemmas    map[string]*Block // "pkgname.lemma"
	OpaqueSpec map[string]bool  // funcKey of opaque spec functions
	HeapClasses map[string]bool // "pkgpath.Type" declared with //@ heap Type
	Assumes    map[string]map[string]*Block // using package path -> "pkgname.Recv.Name" -> assumed contract
	Ifaces     map[string]*Block            // "pkgpath.Type.Method" or "pkgpath.FuncType." -> contract
	Axioms     map[string]bool
	AbstractTypes map[string]map[string]bool // using package path -> "pkgname.Type"
	SynDirs    []*SynDirective
	GInit     map[*types.Var]*GlobalInit
	InitFuncs map[string][]*FuncInfo // pkg path -> init functions in file order
	Written   map[*types.Var][]token.Position
	LoopOrd   map[ast.Stmt]int
	LoopFunc  map[ast.Stmt]*FuncInfo
	strIntern map[string]int64
	Extra     *types.Info // types of invariant expressions checked with CheckExpr
	Overlays  map[string]string
	ModPath   string
	mu        sync.Mutex
	extraMu   sync.RWMutex
}

func funcKey(pkgPath string, recv string, name string) string {
	if recv != "" {
		return pkgPath + "." + recv + "." + name
	}
	return pkgPath + "." + name
}

func recvTypeName(t types.Type) string {
	if p, ok := t.(*types.Pointer); ok {
		t = p.Elem()
	}
	if n, ok := t.(*types.Named); ok {
		return n.Obj().Name()
	}
	return ""
}

func LoadProg(root string) (*Prog, error) {
	p := &Prog{Root: root, Pkgs: map[string]*packages.Package{}, Funcs: map[*types.Func]*FuncInfo{},
		FuncByKey: map[string]*FuncInfo{}, Blocks: map[string]*Block{}, Lemmas: map[string]*Block{}, OpaqueSpec: map[string]bool{}, HeapClasses: map[string]bool{}, Assumes: map[string]map[string]*Block{}, Ifaces: map[string]*Block{}, Axioms: map[string]bool{}, AbstractTypes: map[string]map[string]bool{},
		GInit: map[*types.Var]*GlobalInit{}, InitFuncs: map[string][]*FuncInfo{}, Written: map[*types.Var][]token.Position{},
		LoopOrd: map[ast.Stmt]int{}, LoopFunc: map[ast.Stmt]*FuncInfo{}, strIntern: map[string]int64{}, Overlays: map[string]string{}}
	p.Extra = &types.Info{Types: map[ast.Expr]types.TypeAndValue{}, Defs: map[*ast.Ident]types.Object{}, Uses: map[*ast.Ident]types.Object{},
		Selections: map[*ast.SelectorExpr]*types.Selection{}, Implicits: map[ast.Node]types.Object{}, Instances: map[*ast.Ident]types.Instance{}, Scopes: map[ast.Node]*types.Scope{}}

	mod, err := os.ReadFile(filepath.Join(root, "go.mod"))
	if err != nil {
		return nil, err
	}
	for _, l := range strings.Split(string(mod), "\n") {
		if strings.HasPrefix(l, "module ") {
			p.ModPath = strings.TrimSpace(strings.TrimPrefix(l, "module "))
		}
	}
	cfiles, err := FindContractFiles(root)
	if err != nil {
		return nil, err
	}
	overlay := map[string][]byte{}
	for _, dir := range sortedKeys(cfiles) {
		rel, _ := filepath.Rel(root, dir)
		pkgPath := p.ModPath
		if rel != "." {
			pkgPath += "/" + filepath.ToSlash(rel)
		}
		blocks, err := ParseContractFile(cfiles[dir], pkgPath)
		if err != nil {
			return nil, err
		}
		if len(blocks) == 0 {
			continue
		}
		var imports []string
		data, _ := os.ReadFile(cfiles[dir])
		p.SynDirs = append(p.SynDirs, parseSynDirectives(cfiles[dir], pkgPath, strings.Split(string(data), "\n"))...)
		for _, l := range strings.Split(string(data), "\n") {
			t := strings.TrimSpace(l)
			if strings.HasPrefix(t, "//@ import ") {
				imports = append(imports, strings.TrimSpace(strings.TrimPrefix(t, "//@ import ")))
			}
			if strings.HasPrefix(t, "//@ abstract type ") {
				if p.AbstractTypes[pkgPath] == nil {
					p.AbstractTypes[pkgPath] = map[string]bool{}
				}
				for _, n := range strings.FieldsFunc(strings.TrimPrefix(t, "//@ abstract type "), func(r rune) bool { return r == ',' || r == ' ' }) {
					p.AbstractTypes[pkgPath][n] = true
				}
			}
			if strings.HasPrefix(t, "//@ heap ") {
				p.HeapClasses[pkgPath+"."+strings.TrimSpace(strings.TrimPrefix(t, "//@ heap "))] = true
			}
		}
		src := GenOverlay(blocks[0].PkgName, blocks, imports)
		overlay[filepath.Join(dir, overlayName)] = []byte(src)
		p.Overlays[filepath.Join(dir, overlayName)] = src
		for _, b := range blocks {
			p.BlockList = append(p.BlockList, b)
			switch b.Kind {
			case "func":
				p.Blocks[funcKey(pkgPath, b.Recv, b.Name)] = b
			case "assume":
				if p.Assumes[pkgPath] == nil {
					p.Assumes[pkgPath] = map[string]*Block{}
				}
				pn := b.RecvPkg
				if pn == "" {
					pn = b.PkgName
				}
				p.Assumes[pkgPath][pn+"."+b.Recv+"."+b.Name] = b
			case "iface":
				p.Ifaces[pkgPath+"."+b.Recv+"."+b.Name] = b
			case "lemma":
				if b.Axiom {
					p.Axioms[b.PkgName+"."+b.Name] = true
				}
				p.Lemmas[b.PkgName+"."+b.Name] = b
			case "spec":
				hasLoop := false
				for _, c := range b.Clauses {
					if c.Kind == "invariant" || c.Kind == "unroll" || c.Kind == "havoc" {
						hasLoop = true
					}
				}
				if hasLoop {
					p.Blocks[funcKey(pkgPath, b.Recv, b.Name)] = b
				}
				if b.Opaque {
					p.OpaqueSpec[funcKey(pkgPath, b.Recv, b.Name)] = true
				}
			}
		}
	}
	cfg := &packages.Config{
		Mode: packages.NeedName | packages.NeedSyntax | packages.NeedTypes | packages.NeedTypesInfo |
			packages.NeedDeps | packages.NeedImports | packages.NeedFiles | packages.NeedModule,
		Dir:        root,
		BuildFlags: []string{"-tags", "verif"},
		Overlay:    overlay,
		Env:        append(os.Environ(), "GOFLAGS=-mod=mod", "GOPROXY=off", "GOSUMDB=off", "GOTOOLCHAIN=local"),
	}
	pkgs, err := packages.Load(cfg, "./...")
	if err != nil {
		return nil, err
	}
	var errs []string
	for _, pk := range pkgs {
		for _, e := range pk.Errors {
			errs = append(errs, e.Error())
		}
	}
	if len(errs) > 0 {
		return nil, fmt.Errorf("package errors (contracts must type-check against the real code):\n  %s", strings.Join(errs, "\n  "))
	}
	if len(pkgs) > 0 {
		p.Fset = pkgs[0].Fset
	}
	for _, pk := range pkgs {
		p.Pkgs[pk.PkgPath] = pk
	}
	for _, pk := range pkgs {
		p.indexPackage(pk)
	}
	p.scanWrites()
	return p, nil
}

func (p *Prog) indexPackage(pk *packages.Package) {
	files := append([]*ast.File(nil), pk.Syntax...)
	sort.Slice(files, func(i, j int) bool {
		return p.Fset.Position(files[i].Pos()).Filename < p.Fset.Position(files[j].Pos()).Filename
	})
	for _, f := range files {
		for _, d := range f.Decls {
			switch d := d.(type) {
			case *ast.FuncDecl:
				obj, _ := pk.TypesInfo.Defs[d.Name].(*types.Func)
				if obj == nil {
					continue
				}
				fi := &FuncInfo{Obj: obj, Decl: d, Pkg: pk}
				p.Funcs[obj] = fi
				if d.Name.Name == "init" && d.Recv == nil {
					p.InitFuncs[pk.PkgPath] = append(p.InitFuncs[pk.PkgPath], fi)
					p.FuncByKey[fmt.Sprintf("%s.init#%d", pk.PkgPath, len(p.InitFuncs[pk.PkgPath])-1)] = fi
				} else {
					recv := ""
					if sig := obj.Type().(*types.Signature); sig.Recv() != nil {
						recv = recvTypeName(sig.Recv().Type())
					}
					p.FuncByKey[funcKey(pk.PkgPath, recv, d.Name.Name)] = fi
				}
				// loop ordinals
				n := 0
				if d.Body != nil {
					ast.Inspect(d.Body, func(nd ast.Node) bool {
						switch s := nd.(type) {
						case *ast.ForStmt:
							p.LoopOrd[s] = n
							p.LoopFunc[s] = fi
							n++
						case *ast.RangeStmt:
							p.LoopOrd[s] = n
							p.LoopFunc[s] = fi
							n++
						}
						return true
					})
				}
			case *ast.GenDecl:
				if d.Tok != token.VAR {
					continue
				}
				for _, s := range d.Specs {
					vs := s.(*ast.ValueSpec)
					for i, n := range vs.Names {
						if v, ok := pk.TypesInfo.Defs[n].(*types.Var); ok {
							p.GInit[v] = &GlobalInit{Pkg: pk, Spec: vs, Idx: i}
						}
					}
				}
			}
		}
	}
}

// scanWrites records every syntactic write (assignment, inc/dec, address-of) to a
// package-level variable outside its declaration and outside init functions.
func (p *Prog) scanWrites() {
	for _, pk := range p.Pkgs {
		for _, f := range pk.Syntax {
			for _, d := range f.Decls {
				fd, ok := d.(*ast.FuncDecl)
				if !ok || fd.Body == nil {
					continue
				}
				isInit := fd.Name.Name == "init" && fd.Recv == nil
				note := func(e ast.Expr) {
					// find the root identifier of the lvalue
					for {
						switch x := e.(type) {
						case *ast.ParenExpr:
							e = x.X
							continue
						case *ast.IndexExpr:
							// writing through a slice-typed global's element also counts
							e = x.X
							continue
						case *ast.SelectorExpr:
							if _, isSel := pk.TypesInfo.Selections[x]; isSel {
								e = x.X
								continue
							}
							if v, ok := pk.TypesInfo.Uses[x.Sel].(*types.Var); ok && v.Parent() == v.Pkg().Scope() {
								p.Written[v] = append(p.Written[v], p.Fset.Position(x.Pos()))
							}
							return
						case *ast.StarExpr:
							return
						case *ast.Ident:
							if v, ok := pk.TypesInfo.Uses[x].(*types.Var); ok && v.Pkg() != nil && v.Parent() == v.Pkg().Scope() {
								if !(isInit && v.Pkg() == pk.Types) {
									p.Written[v] = append(p.Written[v], p.Fset.Position(x.Pos()))
								}
							}
							return
						default:
							return
						}
					}
				}
				ast.Inspect(fd.Body, func(nd ast.Node) bool {
					switch s := nd.(type) {
					case *ast.AssignStmt:
						for _, l := range s.Lhs {
							note(l)
						}
					case *ast.IncDecStmt:
						note(s.X)
					case *ast.UnaryExpr:
						if s.Op == token.AND {
							note(s.X)
						}
					case *ast.RangeStmt:
						if s.Tok == token.ASSIGN {
							if s.Key != nil {
								note(s.Key)
							}
							if s.Value != nil {
								note(s.Value)
							}
						}
					}
					return true
				})
			}
		}
	}
}

// CheckExprAt type-checks a spec expression as if written at pos in pkg.
func (p *Prog) CheckExprAt(pk *packages.Package, pos token.Pos, src string) (ast.Expr, error) {
	p.extraMu.Lock()
	defer p.extraMu.Unlock()
	e, err := parser.ParseExprFrom(p.Fset, "spec-expr", src, 0)
	if err != nil {
		return nil, err
	}
	if err := types.CheckExpr(p.Fset, pk.Types, pos, e, p.Extra); err != nil {
		return nil, err
	}
	return e, nil
}

func (p *Prog) FindFunc(pkgSuffix, key string) *FuncInfo {
	for k, fi := range p.FuncByKey {
		if strings.HasSuffix(k, pkgSuffix+"."+key) && (k == pkgSuffix+"."+key || strings.HasSuffix(k, "/"+pkgSuffix+"."+key)) {
			return fi
		}
	}
	return nil
}
