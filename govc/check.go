package main

// Property-level driver: verify every block tagged with the property, classify the
// outcome (held / violation / known finding / machinery problem), replay
// counterexamples on the real code, write evidence.

import (
	"encoding/json"
	"flag"
	"fmt"
	"os"
	"path/filepath"
	"sort"
	"strconv"
	"strings"
	"time"
)

const verifDir = "/verif"

type knownFindings struct {
	findings map[string]string // "prop id" -> description
	fixed    []string
}

func loadKnown() *knownFindings {
	k := &knownFindings{findings: map[string]string{}}
	data, err := os.ReadFile(filepath.Join(verifDir, "known_findings.txt"))
	if err != nil {
		return k
	}
	for _, l := range strings.Split(string(data), "\n") {
		l = strings.TrimSpace(l)
		if strings.HasPrefix(l, "finding:") {
			f := strings.Fields(strings.TrimPrefix(l, "finding:"))
			if len(f) >= 2 {
				prop := strings.TrimPrefix(f[0], "property=")
				id := strings.TrimPrefix(f[1], "id=")
				k.findings[prop+" "+id] = strings.Join(f[2:], " ")
			}
		} else if strings.HasPrefix(l, "fixed:") {
			k.fixed = append(k.fixed, l)
		}
	}
	return k
}

type propInfo struct {
	Level       string   `json:"level"`
	Undecided   []string `json:"undecided_clauses"`
	Explanation string   `json:"explanation"`
}

func loadPropInfo() map[string]*propInfo {
	m := map[string]*propInfo{}
	data, err := os.ReadFile(filepath.Join(verifDir, "props.json"))
	if err == nil {
		json.Unmarshal(data, &m)
	}
	return m
}

func loadBaseline(prop string) map[string]bool {
	m := map[string]bool{}
	data, err := os.ReadFile(filepath.Join(verifDir, "baseline", prop+".json"))
	if err != nil {
		return m
	}
	var names []string
	json.Unmarshal(data, &names)
	for _, n := range names {
		m[n] = true
	}
	return m
}

func cmdCheck(args []string) {
	fs := flag.NewFlagSet("check", flag.ExitOnError)
	root := fs.String("root", "/repo", "repository root")
	prop := fs.String("prop", "", "property id")
	tier := fs.String("tier", "quick", "quick|thorough")
	writeBaseline := fs.Bool("write-baseline", false, "record the names of discharged obligations")
	replayPath := fs.String("replay", "", "re-run a stored replay file")
	verbose := fs.Bool("v", false, "verbose")
	fs.Parse(args)
	if *replayPath != "" {
		os.Exit(rerunReplay(*root, *replayPath))
	}
	if *prop == "" {
		fmt.Fprintln(os.Stderr, "check: -prop required")
		os.Exit(2)
	}
	if t := os.Getenv("VERIF_TIER"); t != "" && *tier == "" {
		*tier = t
	}
	seed := 0
	if s := os.Getenv("VERIF_SEED"); s != "" {
		seed, _ = strconv.Atoi(s)
	}
	t0 := time.Now()
	timeout := 180 * time.Second
	if *tier == "thorough" {
		timeout = 300 * time.Second
	}
	prog, err := LoadProg(*root)
	if err != nil {
		fmt.Fprintln(os.Stderr, "MACHINERY: cannot load /repo with contracts:", err)
		os.Exit(2)
	}
	v := NewVerifier(prog)
	v.Timeout = timeout
	var blocks []*Block
	pkgs := map[string]bool{}
	for _, b := range prog.BlockList {
		if (b.Kind == "func" || b.Kind == "lemma") && !b.Axiom && contains(b.Props, *prop) {
			blocks = append(blocks, b)
			pkgs[b.Pkg] = true
		}
	}
	var syn []*SynDirective
	for _, d := range prog.SynDirs {
		if contains(d.Props, *prop) {
			syn = append(syn, d)
		}
	}
	if len(blocks) == 0 && len(syn) == 0 {
		fmt.Fprintf(os.Stderr, "MACHINERY: no contract block is tagged with %s\n", *prop)
		os.Exit(2)
	}
	if err := v.Preinit(sortedKeys(pkgs)...); err != nil {
		fmt.Fprintln(os.Stderr, "MACHINERY: package initialisation outside the supported subset:", err)
		os.Exit(2)
	}
	known := loadKnown()
	baseline := loadBaseline(*prop)
	pinfo := loadPropInfo()[*prop]
	if pinfo == nil {
		pinfo = &propInfo{Level: "proof"}
	}

	var all []*TargetResult
	for _, b := range blocks {
		all = append(all, v.VerifyBlock(b)...)
	}

	nObl, nDis := 0, 0
	violations := 0
	machinery := 0
	solverWins := map[string]int{}
	solverSecs := 0.0
	assumptions := map[string]bool{}
	used := map[string]bool{}
	var funcs []string
	var samples []interface{}
	var provedNames []string
	var knownLines, knownObls []string
	slowest, slowestName := 0.0, ""
	var bounded []string
	// GOVC_OUT redirects what a run writes (evidence, replays): used by the must-fail self test of
	// the thorough tier, which must not overwrite the evidence of the real run
	outDir := verifDir
	if o := os.Getenv("GOVC_OUT"); o != "" {
		outDir = o
	}
	replayDir := filepath.Join(outDir, "replays", *prop)

	for _, tr := range all {
		for _, a := range tr.Assumptions {
			assumptions[a] = true
		}
		for _, u := range tr.UsedContracts {
			used[u] = true
		}
		funcs = append(funcs, tr.Block.QName())
		if tr.Unsupported != "" {
			fmt.Printf("MACHINERY: %s: outside the supported subset: %s\n", tr.Name, tr.Unsupported)
			machinery++
			continue
		}
		isKnown := tr.KnownID != ""
		if !isKnown && tr.Cover != "sat" {
			fmt.Printf("MACHINERY: %s: precondition not shown satisfiable (%s): contract is vacuous\n", tr.Name, tr.Cover)
			machinery++
			continue
		}
		if !isKnown && !tr.CanaryRefuted {
			fmt.Printf("MACHINERY: %s: assumptions are inconsistent (false is provable)\n", tr.Name)
			machinery++
			continue
		}
		if len(tr.DeadCovers) > 0 {
			fmt.Printf("MACHINERY: %s: unreachable under its own assumptions (vacuous proof): %v\n", tr.Name, tr.DeadCovers)
			machinery++
			continue
		}
		if isKnown && tr.Cover != "sat" {
			// the carved-out case is empty: nothing to report
			continue
		}
		for _, r := range tr.Results {
			if !isKnown {
				nObl++
			}
			if r.Solver != "" {
				solverWins[r.Solver]++
				solverSecs += r.Seconds
				if r.Seconds > slowest {
					slowest, slowestName = r.Seconds, r.Obl.Name
				}
			}
			ok := r.Status == "proved" || r.Status == "trivial"
			if ok {
				if !isKnown {
					nDis++
					provedNames = append(provedNames, r.Obl.Name)
					if len(samples) < 6 && r.Status == "proved" {
						samples = append(samples, map[string]interface{}{"obligation": r.Obl.Name, "clause": r.Obl.Note, "solver": r.Solver, "seconds": round3(r.Seconds), "dag_nodes": r.Size})
					}
				}
				continue
			}
			// not proved
			if isKnown {
				key := *prop + " " + tr.KnownID
				if desc, listed := known.findings[key]; listed {
					line := fmt.Sprintf("KNOWN-FINDING: property=%s id=%s %s", *prop, tr.KnownID, desc)
					knownLines = append(knownLines, line)
					knownObls = append(knownObls, r.Obl.Name)
					continue
				}
			}
			if r.Status != "failed" && !baseline[r.Obl.Name] && !isKnown {
				fmt.Printf("UNDECIDED: %s: %s (not in the baseline of discharged obligations)\n", r.Obl.Name, r.Status)
				machinery++
				continue
			}
			// violation
			violations++
			path := writeReplay(*root, replayDir, prog, tr, r)
			suffix := ""
			if rp := readReplay(path); rp == nil || !rp.Confirmed {
				suffix = " no-failing-input-found"
			}
			fmt.Printf("VIOLATION property=%s replay=%s%s\n", *prop, path, suffix)
			fmt.Printf("  failed obligation: %s  [%s] %s %s\n", r.Obl.Name, r.Status, r.Obl.Pos, r.Obl.Note)
		}
	}
	// frame obligations decided on the typed AST
	for _, d := range syn {
		sr := prog.checkSyntactic(d)
		nObl++
		funcs = append(funcs, sr.Name)
		if sr.OK {
			nDis++
			provedNames = append(provedNames, sr.Name)
			if len(samples) < 8 {
				samples = append(samples, map[string]interface{}{"obligation": sr.Name, "clause": d.Kind + " " + d.Type + "." + d.Field, "solver": "typed-AST scan (no offending site)", "seconds": 0, "dag_nodes": 0})
			}
			continue
		}
		violations++
		os.MkdirAll(replayDir, 0o755)
		path := filepath.Join(replayDir, sanitize(sr.Name)+".json")
		rp := &Replay{Property: *prop, Obligation: sr.Name, Clause: d.Kind + " " + d.Type + " " + d.Field, Status: "failed", Solver: "typed-AST scan",
			Note: "frame obligation violated at: " + strings.Join(sr.Sites, ", ") + " " + sr.Detail, SolverOut: strings.Join(sr.Sites, "\n")}
		data, _ := json.MarshalIndent(rp, "", " ")
		os.WriteFile(path, append(data, '\n'), 0o644)
		fmt.Printf("VIOLATION property=%s replay=%s no-failing-input-found\n", *prop, path)
		fmt.Printf("  failed obligation: %s  sites: %s %s\n", sr.Name, strings.Join(sr.Sites, ", "), sr.Detail)
	}
	seen := map[string]bool{}
	for _, l := range knownLines {
		if !seen[l] {
			fmt.Println(l)
			seen[l] = true
		}
	}
	sort.Strings(funcs)
	funcs = uniq(funcs)

	if *writeBaseline {
		sort.Strings(provedNames)
		os.MkdirAll(filepath.Join(verifDir, "baseline"), 0o755)
		data, _ := json.MarshalIndent(provedNames, "", " ")
		os.WriteFile(filepath.Join(verifDir, "baseline", *prop+".json"), data, 0o644)
	}

	// evidence
	var asm []string
	for a := range assumptions {
		asm = append(asm, a)
	}
	// which check verifies a used contract, if any
	verifiedBy := map[string][]string{}
	for _, b := range prog.BlockList {
		if b.Kind == "func" || b.Kind == "lemma" {
			n := b.QName()
			if b.Kind == "lemma" {
				n = "lemma " + b.PkgName + "." + b.Name
			}
			verifiedBy[n] = b.Props
		}
	}
	for u := range used {
		if ps, ok := verifiedBy[u]; ok && len(ps) > 0 {
			asm = append(asm, "callee contract used at call sites (verified in its own block by the check of "+strings.Join(ps, "/")+"): "+u)
		} else if ok {
			asm = append(asm, "callee contract used at call sites and NOT verified by any check (it only names the function's result as an uninterpreted function of its arguments, or constrains nothing): "+u)
		} else {
			asm = append(asm, "callee contract used at call sites (verified in its own block): "+u)
		}
	}
	asm = append(asm,
		"pointer parameters are non-nil and pairwise non-aliased at function entry",
		"SMT solvers z3 4.8.12 / z3 5.1.0 / cvc5 1.0 are sound; govc's translation of Go to SMT is trusted (guarded by cover/canary checks and the must-fail corpus)",
		"termination is not proved unless a decreases clause is listed")
	for _, u := range pinfo.Undecided {
		asm = append(asm, "NOT DECIDED by this check: "+u)
	}
	sort.Strings(asm)
	cov := map[string]interface{}{
		"obligations":              nObl,
		"discharged":               nDis,
		"checker_cmd":              fmt.Sprintf("/verif/check %s --tier %s  (govc: weakest-precondition style symbolic execution of the typed AST of /repo's working tree; each obligation raced on z3 4.8.12, z3-new 5.1.0, cvc5 1.0)", *prop, *tier),
		"trusted_base":             []string{"z3 4.8.12", "z3-new 5.1.0", "cvc5 1.0", "govc translation (Go typed AST -> SMT-LIB, machine integers as bit-vectors, float32 as IEEE FP)", "go/types, go/packages (x/tools v0.29.0)"},
		"functions_under_contract": funcs,
		"samples":                  samples,
		"solver_wins":              solverWins,
		"solver_seconds":           round3(solverSecs),
		"slowest_obligation":       map[string]interface{}{"name": slowestName, "seconds": round3(slowest), "budget_seconds": timeout.Seconds()},
		"known_findings_reported":  len(seen),
		"known_finding_obligations": knownObls,
		"undecided_clauses":        pinfo.Undecided,
		"bounded":                  bounded,
		"integer_semantics":        "64/32/16/8-bit two's complement bit-vectors (no mathematical-integer shortcut for executable code)",
	}
	if pinfo.Level == "other" {
		cov["explanation"] = pinfo.Explanation
	}
	if len(samples) == 0 {
		cov["samples"] = []interface{}{"(all obligations were discharged by the simplifier)"}
	}
	ev := map[string]interface{}{
		"property_id": *prop,
		"tier":        *tier,
		"seed":        seed,
		"level":       pinfo.Level,
		"coverage":    cov,
		"assumptions": asm,
		"wall_s":      round3(time.Since(t0).Seconds()),
		"violations":  violations,
	}
	os.MkdirAll(filepath.Join(outDir, "evidence"), 0o755)
	data, _ := json.MarshalIndent(ev, "", " ")
	os.WriteFile(filepath.Join(outDir, "evidence", *prop+".json"), append(data, '\n'), 0o644)

	fmt.Printf("%s: %d obligations, %d discharged, %d violations, %d known findings, %d machinery problems, %.1fs\n",
		*prop, nObl, nDis, violations, len(seen), machinery, time.Since(t0).Seconds())
	if *verbose {
		for _, tr := range all {
			for _, r := range tr.Results {
				fmt.Println("   ", r.String())
			}
		}
	}
	switch {
	case violations > 0:
		os.Exit(1)
	case machinery > 0:
		os.Exit(2)
	}
}

func bindingIsFirst(tr *TargetResult) bool {
	return false
}

func uniq(xs []string) []string {
	var out []string
	for i, x := range xs {
		if i == 0 || xs[i-1] != x {
			out = append(out, x)
		}
	}
	return out
}

func round3(f float64) float64 { return float64(int64(f*1000+0.5)) / 1000 }
