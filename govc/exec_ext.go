package main

import (
	"go/ast"
	"go/token"
	"go/types"
	"strings"
)

// globalLoc returns the location of a package-level variable, initialising it on first use.
func (ex *Exec) globalLoc(v *types.Var, st *State) *Loc {
	if l, ok := ex.globals[v]; ok {
		return l
	}
	l := ex.newLoc(v.Pkg().Name()+"."+v.Name(), v.Type())
	ex.globals[v] = l
	ex.escaped[l] = true
	gi := ex.prog.GInit[v]
	if gi != nil && strings.HasSuffix(ex.prog.Fset.Position(v.Pos()).Filename, overlayName) {
		// ghost variable: one arbitrary value for the whole verification of a block
		ex.base[l] = ex.symbolicValue(v.Name(), v.Type())
		return l
	}
	if gi == nil {
		// variable of a package outside the module (std / dependency)
		ex.base[l] = ex.externalGlobal(v)
		return l
	}
	if w := ex.prog.Written[v]; len(w) > 0 {
		// not init-only: arbitrary value at function entry
		ex.assumptions["global "+v.Pkg().Name()+"."+v.Name()+" is written outside init ("+w[0].String()+"): treated as arbitrary"] = true
		ex.base[l] = ex.symbolicValue("global."+v.Pkg().Name()+"."+v.Name(), v.Type())
		return l
	}
	// evaluate initialiser concretely in an empty context
	ex.withGlobalFrame(gi.Pkg.PkgPath, func(gst *State) {
		// an initialiser outside the supported subset leaves an opaque value (the variable can be
		// mentioned but nothing is known about it); init *functions* are not given this latitude
		defer func() {
			if r := recover(); r != nil {
				if u, ok := r.(*unsupportedErr); ok {
					ex.assumptions["package-level variable "+v.Pkg().Name()+"."+v.Name()+" has an initialiser outside the supported subset ("+u.msg+"): its value is opaque"] = true
					ex.base[l] = &OpaqueV{What: v.Pkg().Path() + "." + v.Name(), IsNil: ex.ts.False()}
					return
				}
				panic(r)
			}
		}()
		if len(gi.Spec.Values) == 0 {
			ex.base[l] = ex.zeroValue(v.Type())
		} else if len(gi.Spec.Values) == len(gi.Spec.Names) {
			ex.base[l] = ex.eval(gi.Spec.Values[gi.Idx], gst)
		} else {
			tv := ex.eval(gi.Spec.Values[0], gst).(*TupleV)
			ex.base[l] = tv.Vals[gi.Idx]
		}
		ex.flushToBase(gst)
	})
	// run the package's init functions (they may fill this table)
	ex.runInits(gi.Pkg.PkgPath)
	return l
}

func (ex *Exec) flushToBase(gst *State) {
	for k, val := range gst.store {
		ex.base[k] = val
	}
}

func (ex *Exec) withGlobalFrame(pkgPath string, fn func(st *State)) {
	pk := ex.prog.Pkgs[pkgPath]
	fr := &frame{pkg: pk, env: NewEnv(nil), name: "global init " + pkgPath}
	saveFrames := ex.frames
	ex.frames = []*frame{fr}
	saveSup := ex.suppress
	ex.suppress++ // initialisers are checked by running the real program; no obligations here
	gst := &State{pc: ex.ts.True(), store: map[*Loc]Value{}}
	ex.pushScope()
	ex.inGlobalInit++
	fn(gst)
	ex.inGlobalInit--
	ex.suppress = saveSup
	ex.frames = saveFrames
}

func (ex *Exec) runInits(pkgPath string) {
	if ex.initDone[pkgPath] || ex.initBusy[pkgPath] {
		return
	}
	ex.initBusy[pkgPath] = true
	for _, fi := range ex.prog.InitFuncs[pkgPath] {
		fi := fi
		ex.withGlobalFrame(pkgPath, func(gst *State) {
			ex.inline(fi, nil, fi.Pkg, nil, nil, nil, gst, &ast.CallExpr{})
			if gst.pc.IsFalse() {
				unsupported("init of %s diverges", pkgPath)
			}
			ex.flushToBase(gst)
		})
	}
	ex.initBusy[pkgPath] = false
	ex.initDone[pkgPath] = true
}

func (ex *Exec) externalGlobal(v *types.Var) Value {
	return &OpaqueV{What: v.Pkg().Path() + "." + v.Name(), IsNil: ex.ts.False()}
}

// callWithContract handles a call to a function that has a contract block.
// Opaque blocks are used modularly; otherwise requires are asserted and the body is inlined.
func (ex *Exec) callWithContract(fi *FuncInfo, blk *Block, recv Value, args []Value, st *State, site *ast.CallExpr) (Value, bool) {
	if ex.suppress > 0 && !blk.Opaque {
		return nil, false
	}
	opaque := blk.Opaque && !ex.forceInline[blk.Key()]
	hasReq := false
	for _, c := range blk.Clauses {
		if c.Kind == "requires" {
			hasReq = true
		}
	}
	key := blk.QName()
	if hasReq {
		for _, c := range blk.Clauses {
			if c.Kind != "requires" {
				continue
			}
			g := ex.callClause(fi, c, recv, args, nil, st, site)
			ex.assert(st, "call."+blk.Key()+".requires", g, site.Pos(), "precondition of "+key+": "+c.Text)
		}
	}
	if !opaque {
		if hasReq {
			// internal obligations of the callee are proved under its requires in its own block
			ex.usedContracts[key] = true
			ex.suppress++
			v := ex.inline(fi, nil, fi.Pkg, nil, recv, args, st, site)
			ex.suppress--
			return v, true
		}
		return nil, false
	}
	return ex.contractCall(blk, recv, nil, args, resultTypes(fi), st, site), true
}

func (ex *Exec) clauseSig(fi *FuncInfo, c *Clause) *types.Signature {
	recvName := ""
	if sig := fi.Obj.Type().(*types.Signature); sig.Recv() != nil {
		recvName = recvTypeName(sig.Recv().Type())
	}
	cf := ex.prog.FuncByKey[funcKey(fi.Pkg.PkgPath, recvName, c.Name)]
	if cf == nil {
		unsupported("clause function %s not found", c.Name)
	}
	return cf.Obj.Type().(*types.Signature)
}

// callClause evaluates a generated requires/ensures function on concrete argument values.
func (ex *Exec) callClause(fi *FuncInfo, c *Clause, recv Value, args []Value, res []Value, st *State, site *ast.CallExpr) *Term {
	recvName := ""
	if sig := fi.Obj.Type().(*types.Signature); sig.Recv() != nil {
		recvName = recvTypeName(sig.Recv().Type())
	}
	cf := ex.prog.FuncByKey[funcKey(fi.Pkg.PkgPath, recvName, c.Name)]
	if cf == nil {
		unsupported("clause function %s not found", c.Name)
	}
	all := append(append([]Value(nil), args...), res...)
	ex.suppress++
	v := ex.inline(cf, nil, cf.Pkg, nil, recv, all, st, site)
	ex.suppress--
	t, ok := v.(*Term)
	if !ok {
		unsupported("clause %s did not yield a boolean", c.Name)
	}
	return t
}

func (ex *Exec) applyModifies(fi *FuncInfo, blk *Block, recv Value, args []Value, st *State) {
	for _, c := range blk.Clauses {
		if c.Kind != "modifies" {
			continue
		}
		for _, what := range strings.FieldsFunc(c.Text, func(r rune) bool { return r == ',' || r == ' ' }) {
			what = strings.TrimPrefix(what, "*")
			var target Value
			if what == blk.RecvName() {
				target = recv
			} else {
				for i, n := range blk.ParamNames() {
					if n == what {
						target = args[i]
					}
				}
			}
			pv, ok := target.(*PtrV)
			if !ok || pv.Nil {
				unsupported("modifies %s: not a pointer parameter", what)
			}
			cur := ex.getPath(ex.load(st, pv.Loc), pv.Path, st, token.NoPos)
			_ = cur
			nv := ex.havocValue(blk.Key()+"."+what, pv.Loc.Typ, st)
			if len(pv.Path) == 0 {
				st.store[pv.Loc] = nv
			} else {
				unsupported("modifies through interior pointer")
			}
		}
	}
}

// havocValue returns an arbitrary value of type t (fresh variables).
func (ex *Exec) havocValue(prefix string, t types.Type, st *State) Value {
	ts := ex.ts
	if ex.isAbstractType(t) {
		return &OpaqueTokV{ID: ts.Fresh(prefix, BVSort(64))}
	}
	switch u := t.Underlying().(type) {
	case *types.Basic:
		if s, ok := scalarSort(t); ok {
			return ts.Fresh(prefix, s)
		}
		if isString(t) {
			return &StrV{T: ts.Fresh(prefix, IntSort)}
		}
	case *types.Struct:
		sv := &StructV{Fields: make([]Value, u.NumFields())}
		for i := range sv.Fields {
			sv.Fields[i] = ex.havocValue(prefix+"."+u.Field(i).Name(), u.Field(i).Type(), st)
		}
		return sv
	case *types.Array:
		av := &ArrayV{Elems: make([]Value, u.Len())}
		for i := range av.Elems {
			av.Elems[i] = ex.havocValue(prefix, u.Elem(), st)
		}
		return av
	case *types.Interface:
		if _, _, named := namedKey(t); named {
			return ex.abstractValue(prefix, t, true)
		}
		return &OpaqueV{What: prefix, IsNil: ts.Fresh(prefix+".isnil", BoolSort)}
	case *types.Signature:
		return ex.abstractValue(prefix, t, true)
	case *types.Map:
		ks, vs := ex.mapSorts(u)
		return &MapV{Val: ts.Fresh(prefix, ArraySort(ks, vs)), T: u}
	case *types.Pointer:
		if hc := ex.heapClassOf(u.Elem()); hc != nil {
			return ex.heapHavocRef(st, hc, prefix)
		}
		l := ex.newLoc(prefix, u.Elem())
		ex.escaped[l] = true
		st.store[l] = ex.havocValue(prefix+".*", u.Elem(), st)
		return &PtrV{Loc: l}
	case *types.Slice:
		return ex.havocSymSlice(st, prefix, u)
	}
	unsupported("havoc of type %s", t)
	return nil
}

// callExternal models functions outside the module (or without bodies).
func (ex *Exec) callExternal(f *FuncV, args []Value, st *State, site *ast.CallExpr) Value {
	ts := ex.ts
	name := f.Named
	if f.Obj != nil {
		name = f.Obj.FullName()
	}
	arg := func(i int) *Term {
		t, ok := args[i].(*Term)
		if !ok {
			unsupported("%s: non-scalar argument", name)
		}
		return t
	}
	switch name {
	case "math/bits.OnesCount64", "math/bits.OnesCount32", "math/bits.OnesCount16", "math/bits.OnesCount8", "math/bits.OnesCount":
		ex.assumptions["math/bits functions modelled by their documented meaning"] = true
		return ts.PopCount(arg(0), 64)
	case "math/bits.TrailingZeros64", "math/bits.TrailingZeros32", "math/bits.TrailingZeros16", "math/bits.TrailingZeros8", "math/bits.TrailingZeros":
		ex.assumptions["math/bits functions modelled by their documented meaning"] = true
		return ts.TrailingZeros(arg(0), 64)
	case "math/bits.LeadingZeros64", "math/bits.LeadingZeros32", "math/bits.LeadingZeros16", "math/bits.LeadingZeros8", "math/bits.LeadingZeros":
		ex.assumptions["math/bits functions modelled by their documented meaning"] = true
		return ts.LeadingZeros(arg(0), 64)
	case "math/bits.Len64":
		ex.assumptions["math/bits functions modelled by their documented meaning"] = true
		return ts.BVBin(OpBVSub, ts.BV(64, 64), ts.LeadingZeros(arg(0), 64))
	case "github.com/seekerror/stdlib/pkg/util/contextx.IsCancelled":
		ex.cancelModel = true
		ex.assumptions["cancellation is a ghost flag that may rise at any poll or call and never falls (contextx.IsCancelled reads it)"] = true
		return ex.pollCancelled(st)
	case "fmt.Errorf", "errors.New":
		ex.assumptions["fmt.Errorf/errors.New return a non-nil error whose text is not modelled"] = true
		return &OpaqueV{What: "error", IsNil: ts.False()}
	case "fmt.Sprintf", "fmt.Sprint", "fmt.Sprintln":
		ex.assumptions["fmt.Sprint* results are opaque strings"] = true
		return &StrV{T: ts.Fresh("sprintf", IntSort)}
	case "strings.ToUpper", "strings.ToLower", "strings.TrimSpace", "strings.Join", "strings.TrimPrefix", "strings.Repeat":
		if name == "strings.ToUpper" || name == "strings.ToLower" {
			if s, ok := args[0].(*StrV); ok && s.Concrete {
				if name == "strings.ToUpper" {
					return &StrV{Concrete: true, S: strings.ToUpper(s.S)}
				}
				return &StrV{Concrete: true, S: strings.ToLower(s.S)}
			}
		}
		ex.assumptions["strings.* results are opaque strings"] = true
		return &StrV{T: ts.Fresh("str", IntSort)}
	case "math.Sqrt", "math.Round", "math.Abs", "math.Floor", "math.Ceil":
		return ex.mathFn(name, arg(0), st)
	}
	if strings.HasPrefix(name, "github.com/seekerror/logw.") || strings.HasPrefix(name, "(github.com/seekerror/logw.") {
		ex.assumptions["logw logging calls have no effect on program state"] = true
		return nil
	}
	if strings.HasPrefix(name, "(*sync.Mutex).") || strings.HasPrefix(name, "(*sync.RWMutex).") {
		ex.assumptions["sync.Mutex Lock/Unlock treated as no-ops (sequential semantics)"] = true
		return nil
	}
	if v, ok := ex.callExternalMore(name, f, args, st, site); ok {
		return v
	}
	if ex.inGlobalInit > 0 {
		// initialiser of a package-level variable calling into a dependency: the variable holds an
		// opaque value (reads of it yield nothing that can be reasoned about)
		ex.assumptions["package-level variables initialised by calls into dependencies hold opaque values ("+name+")"] = true
		return &OpaqueV{What: name, IsNil: ex.ts.False()}
	}
	unsupported("call of unmodelled function %s at %s", name, ex.pos(site.Pos()))
	return nil
}

func (ex *Exec) mathFn(name string, a *Term, st *State) Value {
	ts := ex.ts
	switch name {
	case "math.Abs":
		zero := ts.FP64(0)
		return ts.Ite(ts.FPBin(OpFPLt, a, zero), ts.FPUn(OpFPNeg, a), a)
	}
	// uninterpreted with the properties listed in assumptions
	ex.assumptions[name+" is an uninterpreted function constrained only by: result not NaN and >= 0 for finite non-negative input (Sqrt); finite for finite input"] = true
	r := ts.App("dep."+name, FP64Sort, a)
	fin := ts.And(ts.Not(ts.FPUn(OpFPIsNaN, a)), ts.Not(ts.FPUn(OpFPIsInf, a)))
	rf := ts.And(ts.Not(ts.FPUn(OpFPIsNaN, r)), ts.Not(ts.FPUn(OpFPIsInf, r)))
	if name == "math.Sqrt" {
		nonneg := ts.FPBin(OpFPLe, ts.FP64(0), a)
		ex.facts = append(ex.facts, ts.Implies(ts.And(fin, nonneg), ts.And(rf, ts.FPBin(OpFPLe, ts.FP64(0), r))))
		// sqrt(x) <= max(x,1)
		ex.facts = append(ex.facts, ts.Implies(ts.And(fin, nonneg), ts.FPBin(OpFPLe, r, ts.Ite(ts.FPBin(OpFPLt, a, ts.FP64(1)), ts.FP64(1), a))))
	} else {
		ex.facts = append(ex.facts, ts.Implies(fin, rf))
	}
	return r
}
