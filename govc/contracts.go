package main

// Parsing of //@ contract comments (Gobra style) from the guarded, comment-only
// contracts_verif.go files in /repo, and mechanical generation of an in-memory
// Go overlay (never written into /repo) so that spec functions and contract
// clauses are type-checked by go/types against the real package.

import (
	"fmt"
	"go/ast"
	"go/parser"
	"go/token"
	"os"
	"path/filepath"
	"regexp"
	"sort"
	"strconv"
	"strings"
)

type Clause struct {
	Kind string // requires ensures invariant unroll split opaque prop decreases modifies assume havoc
	Loop int    // for loop clauses
	Text string // raw text
	Go   string // rewritten Go expression
	Line int
	Name string // generated function name in the overlay (requires/ensures)
	ID   string // known-finding id
	IsLoop bool
	OnVar  string // "on v: use ..." clauses: the assigned variable
	ArgText string // "(args)" of a use clause
	Quantified bool
	DecName string // generated decrease-check function for a self-use
}

type Block struct {
	Kind    string // "func" "lemma" "spec" "assume-dep" "iface"
	Pkg     string // package path
	PkgName string
	File    string
	Line    int
	Header  string // Go function header text (without "func")
	Name    string // function / lemma name
	Recv    string // receiver type name ("" for plain), without *
	RecvPtr bool
	Clauses []*Clause
	Body    string // spec func body text (Go), including braces
	Props   []string
	Opaque  bool
	RecvPkg string // package name of a foreign receiver type (assume blocks)
	Abstract bool // spec function without a body (uninterpreted)
	Axiom   bool  // lemma that is assumed, not proved
	Ghosts  [][2]string   // universally quantified postcondition variables (name, type)
	// Witnesses are existentially quantified postcondition variables: the function's proof
	// supplies the value of a local expression at each return; callers get an arbitrary value
	// constrained only by the ensures clauses. (name, type, Go expression)
	Witnesses [][3]string
	decl    *ast.FuncDecl // parsed header
}

func (b *Block) Key() string {
	if b.Recv != "" {
		return b.Recv + "." + b.Name
	}
	return b.Name
}

func (b *Block) QName() string { return b.PkgName + "." + b.Key() }

var clauseKW = []string{"requires", "ensures", "loop", "split", "opaque", "prop", "decreases", "modifies", "assume", "inline", "nooverlay", "unsafe-ok", "havoc", "using", "trusted", "known", "reveal", "forall", "use", "inline", "witness", "return", "uninterpreted", "ghostarg", "on"}
var blockKW = []string{"opaque spec func", "abstract func", "spec func", "lemma", "axiom", "assume func", "func", "assume-dep", "iface", "ghost"}

func startsWithKW(s string, kws []string) string {
	for _, k := range kws {
		if s == k || strings.HasPrefix(s, k+" ") || strings.HasPrefix(s, k+":") || strings.HasPrefix(s, k+"\t") {
			return k
		}
	}
	return ""
}

// ParseContractFile parses one contracts_verif.go file.
func ParseContractFile(path, pkgPath string) ([]*Block, error) {
	data, err := os.ReadFile(path)
	if err != nil {
		return nil, err
	}
	lines := strings.Split(string(data), "\n")
	pkgName := ""
	var blocks []*Block
	var cur *Block
	var curClause *Clause
	inBody := false
	for i, raw := range lines {
		ln := i + 1
		t := strings.TrimSpace(raw)
		if strings.HasPrefix(t, "package ") {
			pkgName = strings.TrimSpace(strings.TrimPrefix(t, "package "))
			continue
		}
		if !strings.HasPrefix(t, "//@") {
			if t != "" && !strings.HasPrefix(t, "//") {
				return nil, fmt.Errorf("%s:%d: contract file must be comment-only, found code: %q", path, ln, t)
			}
			continue
		}
		c := strings.TrimPrefix(t, "//@")
		if strings.HasPrefix(c, " ") {
			c = c[1:]
		}
		ct := strings.TrimSpace(c)
		if inBody {
			cur.Body += c + "\n"
			if c == "}" {
				inBody = false
			}
			continue
		}
		if ct == "" {
			continue
		}
		if strings.HasPrefix(ct, "--") || strings.HasPrefix(ct, "import ") || strings.HasPrefix(ct, "heap ") || strings.HasPrefix(ct, "abstract type ") || strings.HasPrefix(ct, "immutable ") || strings.HasPrefix(ct, "atomic-only ") || strings.HasPrefix(ct, "no-mutable-globals ") { // comments and directives
			continue
		}
		if kw := startsWithKW(ct, blockKW); kw != "" && !strings.HasPrefix(c, " ") && !strings.HasPrefix(c, "\t") {
			cur = &Block{Pkg: pkgPath, PkgName: pkgName, File: path, Line: ln}
			curClause = nil
			blocks = append(blocks, cur)
			rest := strings.TrimSpace(strings.TrimPrefix(ct, kw))
			switch kw {
			case "opaque spec func", "spec func":
				cur.Kind = "spec"
				cur.Opaque = kw == "opaque spec func"
				if strings.HasSuffix(rest, "{") {
					cur.Header = strings.TrimSpace(strings.TrimSuffix(rest, "{"))
					cur.Body = "{\n"
					inBody = true
				} else if idx := strings.Index(rest, " = "); idx >= 0 {
					cur.Header = strings.TrimSpace(rest[:idx])
					curClause = &Clause{Kind: "specexpr", Text: rest[idx+3:], Line: ln}
					cur.Clauses = append(cur.Clauses, curClause)
				} else if strings.HasSuffix(rest, " =") {
					cur.Header = strings.TrimSpace(strings.TrimSuffix(rest, "="))
					curClause = &Clause{Kind: "specexpr", Text: "", Line: ln}
					cur.Clauses = append(cur.Clauses, curClause)
				} else {
					return nil, fmt.Errorf("%s:%d: spec func needs '= expr' or '{'", path, ln)
				}
			case "abstract func":
				cur.Kind = "spec"
				cur.Opaque = true
				cur.Abstract = true
				cur.Header = rest
			case "axiom":
				cur.Kind = "lemma"
				cur.Axiom = true
				cur.Header = rest
			case "assume func":
				cur.Kind = "assume"
				cur.Header = rest
				if m := regexp.MustCompile(`^([a-z][A-Za-z0-9_]*)\.([A-Za-z_][A-Za-z0-9_]*\(.*)$`).FindStringSubmatch(rest); m != nil {
					cur.RecvPkg = m[1]
					cur.Header = m[2]
				}
			case "lemma":
				cur.Kind = "lemma"
				cur.Header = rest
			case "func":
				cur.Kind = "func"
				cur.Header = rest
			case "assume-dep":
				cur.Kind = "assume-dep"
				cur.Header = rest
			case "iface":
				cur.Kind = "iface"
				cur.Header = rest
			default:
				return nil, fmt.Errorf("%s:%d: unsupported block %q", path, ln, kw)
			}
			continue
		}
		if cur == nil {
			return nil, fmt.Errorf("%s:%d: clause outside block: %q", path, ln, ct)
		}
		if kw := startsWithKW(ct, clauseKW); kw != "" && !((kw == "forall") && strings.Contains(ct, "::")) {
			rest := strings.TrimSpace(strings.TrimPrefix(ct, kw))
			curClause = &Clause{Kind: kw, Text: rest, Line: ln}
			switch kw {
			case "loop":
				// loop K: invariant E | unroll N | decreases E
				m := regexp.MustCompile(`^(\d+)\s*:\s*(invariant|unroll|decreases|havoc|use|rangevar)\s*(.*)$`).FindStringSubmatch(rest)
				if m == nil {
					return nil, fmt.Errorf("%s:%d: bad loop clause %q", path, ln, rest)
				}
				curClause.Loop, _ = strconv.Atoi(m[1])
				curClause.Kind = m[2]
				curClause.Text = m[3]
				curClause.IsLoop = true
			case "opaque":
				cur.Opaque = true
			case "forall":
				f := strings.Fields(rest)
				if len(f) != 2 {
					return nil, fmt.Errorf("%s:%d: forall clause wants 'name Type'", path, ln)
				}
				cur.Ghosts = append(cur.Ghosts, [2]string{f[0], f[1]})
			case "on":
				// on v: use lemma(args): a lemma instance over the locals right after every
				// assignment to the local variable v in the verified function
				m := regexp.MustCompile(`^(\w+)\s*:\s*use\s+(.*)$`).FindStringSubmatch(rest)
				if m == nil {
					return nil, fmt.Errorf("%s:%d: on clause wants 'on var: use lemma(args)'", path, ln)
				}
				curClause.Kind = "use"
				curClause.Text = strings.TrimSpace(m[2])
				curClause.IsLoop = true
				curClause.Loop = -3
				curClause.OnVar = m[1]
			case "return":
				// return use lemma(args): a lemma instance over the locals at every return
				if !strings.HasPrefix(rest, "use ") {
					return nil, fmt.Errorf("%s:%d: return clause wants 'return use lemma(args)'", path, ln)
				}
				curClause.Kind = "use"
				curClause.Text = strings.TrimSpace(strings.TrimPrefix(rest, "use "))
				curClause.IsLoop = true
				curClause.Loop = -2
			case "witness":
				// witness name Type = expr
				eq := strings.Index(rest, "=")
				f := strings.Fields(rest[:max(eq, 0)])
				if eq < 0 || len(f) != 2 {
					return nil, fmt.Errorf("%s:%d: witness clause wants 'name Type = expr'", path, ln)
				}
				cur.Witnesses = append(cur.Witnesses, [3]string{f[0], f[1], strings.TrimSpace(rest[eq+1:])})
			case "prop":
				for _, p := range strings.FieldsFunc(rest, func(r rune) bool { return r == ',' || r == ' ' }) {
					cur.Props = append(cur.Props, p)
				}
			}
			cur.Clauses = append(cur.Clauses, curClause)
			continue
		}
		// continuation
		if curClause == nil {
			return nil, fmt.Errorf("%s:%d: continuation without clause: %q", path, ln, ct)
		}
		curClause.Text += " " + ct
	}
	if inBody {
		return nil, fmt.Errorf("%s: unterminated spec func body", path)
	}
	for _, b := range blocks {
		if err := b.parseHeader(); err != nil {
			return nil, err
		}
		for _, c := range b.Clauses {
			switch c.Kind {
			case "known":
				idx := strings.Index(c.Text, ":")
				if idx < 0 {
					return nil, fmt.Errorf("%s:%d: known clause needs 'ID: condition'", b.File, c.Line)
				}
				c.ID = strings.TrimSpace(c.Text[:idx])
				g, err := RewriteSpecExpr(c.Text[idx+1:])
				if err != nil {
					return nil, fmt.Errorf("%s:%d: %v", b.File, c.Line, err)
				}
				c.Go = g
			case "use":
				if c.Loop >= 0 && c.IsLoop {
					// handled below (same syntax)
				}
				// use [forall x T in lo..hi ::] lemmaName(args)
				txt := strings.TrimSpace(c.Text)
				pre := ""
				// any number of quantifier prefixes: forall x T [in a..b] :: ... lemma(args)
				if idx := strings.LastIndex(txt, "::"); idx >= 0 && strings.HasPrefix(txt, "forall ") {
					pre = txt[:idx+2] + " "
					txt = strings.TrimSpace(txt[idx+2:])
				}
				par := strings.Index(txt, "(")
				if par <= 0 {
					return nil, fmt.Errorf("%s:%d: use clause wants lemmaName(args)", b.File, c.Line)
				}
				c.ID = strings.TrimSpace(txt[:par])
				c.ArgText = txt[par:]
				c.Quantified = pre != ""
				holds := "lemma_" + c.ID + "__holds"
				if dot := strings.Index(c.ID, "."); dot > 0 {
					// lemma of another package: its exported alias
					holds = c.ID[:dot] + ".Lemma_" + c.ID[dot+1:] + "__holds"
				}
				g, err := RewriteSpecExpr(pre + holds + txt[par:])
				if err != nil {
					return nil, fmt.Errorf("%s:%d: %v", b.File, c.Line, err)
				}
				c.Go = g
			case "requires", "ensures", "invariant", "specexpr", "assume", "decreases":
				g, err := RewriteSpecExpr(c.Text)
				if err != nil {
					return nil, fmt.Errorf("%s:%d: %v", b.File, c.Line, err)
				}
				c.Go = g
			}
		}
		if b.Kind == "spec" && b.Body != "" {
			// rewrite ==> inside body lines
			g, err := rewriteBody(b.Body)
			if err != nil {
				return nil, fmt.Errorf("%s:%d: %v", b.File, b.Line, err)
			}
			b.Body = g
		}
	}
	return blocks, nil
}

func (b *Block) parseHeader() error {
	h := b.Header
	src := ""
	switch b.Kind {
	case "spec", "func", "assume":
		src = "package x\nfunc " + h + " {}"
	case "lemma":
		src = "package x\nfunc " + h + " {}"
	}
	if b.Kind == "assume-dep" || b.Kind == "iface" {
		// header is Type.Method(params) results, or FuncType(params) results
		idx := strings.Index(h, "(")
		if idx < 0 {
			return fmt.Errorf("%s:%d: bad header", b.File, b.Line)
		}
		q := strings.TrimSpace(h[:idx])
		b.Name = q
		if dot := strings.Index(q, "."); dot >= 0 {
			b.Recv, b.Name = q[:dot], q[dot+1:]
		} else {
			b.Recv, b.Name = q, ""
		}
		src = "package x\nfunc dep" + h[idx:] + " {}"
	}
	fset := token.NewFileSet()
	f, err := parser.ParseFile(fset, "hdr.go", src, 0)
	if err != nil {
		return fmt.Errorf("%s:%d: cannot parse header %q: %v", b.File, b.Line, h, err)
	}
	fd := f.Decls[0].(*ast.FuncDecl)
	b.decl = fd
	if b.Kind != "assume-dep" && b.Kind != "iface" {
		b.Name = fd.Name.Name
	}
	if fd.Recv != nil && len(fd.Recv.List) == 1 {
		t := fd.Recv.List[0].Type
		if st, ok := t.(*ast.StarExpr); ok {
			b.RecvPtr = true
			t = st.X
		}
		if id, ok := t.(*ast.Ident); ok {
			b.Recv = id.Name
		}
		if se, ok := t.(*ast.SelectorExpr); ok { // foreign type: pkg.Type
			b.Recv = se.Sel.Name
			if x, ok := se.X.(*ast.Ident); ok {
				b.RecvPkg = x.Name
			}
		}
	}
	return nil
}

// ---- expression rewriting: ==>, <==>, forall/exists ----

func rewriteBody(body string) (string, error) {
	// Only ==> / <==> / forall inside "return EXPR" or "x := EXPR" lines are
	// supported in brace bodies; rewrite per statement line.
	var out []string
	for _, l := range strings.Split(body, "\n") {
		if strings.Contains(l, "==>") || strings.Contains(l, "forall ") || strings.Contains(l, "exists ") {
			t := strings.TrimSpace(l)
			prefix := ""
			switch {
			case strings.HasPrefix(t, "return "):
				prefix = "return "
				t = strings.TrimPrefix(t, "return ")
			default:
				if m := regexp.MustCompile(`^([A-Za-z_][A-Za-z0-9_]*\s*:?=\s*)(.*)$`).FindStringSubmatch(t); m != nil {
					prefix, t = m[1], m[2]
				}
			}
			g, err := RewriteSpecExpr(t)
			if err != nil {
				return "", err
			}
			out = append(out, prefix+g)
		} else {
			out = append(out, l)
		}
	}
	return strings.Join(out, "\n"), nil
}

// splitTop splits s at top-level occurrences of sep (outside brackets/quotes).
func splitTop(s, sep string) []string {
	var parts []string
	depth := 0
	start := 0
	inStr := byte(0)
	for i := 0; i < len(s); i++ {
		c := s[i]
		if inStr != 0 {
			if c == '\\' {
				i++
			} else if c == inStr {
				inStr = 0
			}
			continue
		}
		switch c {
		case '"', '\'', '`':
			inStr = c
		case '(', '[', '{':
			depth++
		case ')', ']', '}':
			depth--
		default:
			if depth == 0 && strings.HasPrefix(s[i:], sep) {
				// do not split "<==>" when looking for "==>"
				if sep == "==>" && i > 0 && s[i-1] == '<' {
					continue
				}
				parts = append(parts, s[start:i])
				start = i + len(sep)
				i += len(sep) - 1
			}
		}
	}
	parts = append(parts, s[start:])
	return parts
}

var quantAllRe = regexp.MustCompile(`^(forall|exists)\s+([A-Za-z_][A-Za-z0-9_]*)\s+([A-Za-z_][A-Za-z0-9_.]*)\s*::\s*(.*)$`)
var quantRe = regexp.MustCompile(`^(forall|exists)\s+([A-Za-z_][A-Za-z0-9_]*)\s+(?:([A-Za-z_][A-Za-z0-9_.]*)\s+)?in\s+(.+?)\.\.(.+?)\s*::\s*(.*)$`)

func RewriteSpecExpr(s string) (string, error) {
	s = strings.TrimSpace(s)
	if s == "" {
		return "", fmt.Errorf("empty expression")
	}
	if m := quantAllRe.FindStringSubmatch(s); m != nil && !quantRe.MatchString(s) {
		body, err := RewriteSpecExpr(m[4])
		if err != nil {
			return "", err
		}
		if m[1] == "exists" {
			return fmt.Sprintf("!forallAll(func(%s %s) bool { return !(%s) })", m[2], m[3], body), nil
		}
		return fmt.Sprintf("forallAll(func(%s %s) bool { return %s })", m[2], m[3], body), nil
	}
	if m := quantRe.FindStringSubmatch(s); m != nil {
		body, err := RewriteSpecExpr(m[6])
		if err != nil {
			return "", err
		}
		lo, err := RewriteSpecExpr(m[4])
		if err != nil {
			return "", err
		}
		hi, err := RewriteSpecExpr(m[5])
		if err != nil {
			return "", err
		}
		typ := m[3]
		if typ == "" {
			typ = "int"
		}
		return fmt.Sprintf("%sRange(%s(%s), %s(%s), func(%s %s) bool { return %s })", m[1], typ, lo, typ, hi, m[2], typ, body), nil
	}
	if parts := splitTop(s, "<==>"); len(parts) > 1 {
		if len(parts) != 2 {
			return "", fmt.Errorf("chained <==> not supported: %q", s)
		}
		a, err := RewriteSpecExpr(parts[0])
		if err != nil {
			return "", err
		}
		b, err := RewriteSpecExpr(parts[1])
		if err != nil {
			return "", err
		}
		return fmt.Sprintf("((%s) == (%s))", a, b), nil
	}
	if parts := splitTop(s, "==>"); len(parts) > 1 {
		a, err := RewriteSpecExpr(parts[0])
		if err != nil {
			return "", err
		}
		b, err := RewriteSpecExpr(strings.Join(parts[1:], "==>"))
		if err != nil {
			return "", err
		}
		return fmt.Sprintf("(!(%s) || (%s))", a, b), nil
	}
	// recurse into bracket groups that contain special syntax
	if !strings.Contains(s, "==>") && !strings.Contains(s, "forall ") && !strings.Contains(s, "exists ") {
		return s, nil
	}
	var sb strings.Builder
	inStr := byte(0)
	for i := 0; i < len(s); i++ {
		c := s[i]
		if inStr != 0 {
			sb.WriteByte(c)
			if c == '\\' && i+1 < len(s) {
				i++
				sb.WriteByte(s[i])
			} else if c == inStr {
				inStr = 0
			}
			continue
		}
		switch c {
		case '"', '\'', '`':
			inStr = c
			sb.WriteByte(c)
		case '(', '[', '{':
			// find matching close
			j := matchClose(s, i)
			if j < 0 {
				return "", fmt.Errorf("unbalanced brackets in %q", s)
			}
			inner := s[i+1 : j]
			pieces := splitTop(inner, ",")
			for k, p := range pieces {
				if strings.TrimSpace(p) == "" {
					continue
				}
				g, err := RewriteSpecExpr(p)
				if err != nil {
					return "", err
				}
				pieces[k] = g
			}
			sb.WriteByte(c)
			sb.WriteString(strings.Join(pieces, ", "))
			sb.WriteByte(s[j])
			i = j
		default:
			sb.WriteByte(c)
		}
	}
	return sb.String(), nil
}

func matchClose(s string, i int) int {
	depth := 0
	inStr := byte(0)
	for j := i; j < len(s); j++ {
		c := s[j]
		if inStr != 0 {
			if c == '\\' {
				j++
			} else if c == inStr {
				inStr = 0
			}
			continue
		}
		switch c {
		case '"', '\'', '`':
			inStr = c
		case '(', '[', '{':
			depth++
		case ')', ']', '}':
			depth--
			if depth == 0 {
				return j
			}
		}
	}
	return -1
}

// ---- overlay generation ----

const overlayName = "zz_govc_overlay_verif.go"

// Prelude available to every spec: real Go, so the same text can be executed in replays.
const preludeSrc = `
type specInteger interface {
	~int | ~int8 | ~int16 | ~int32 | ~int64 | ~uint | ~uint8 | ~uint16 | ~uint32 | ~uint64
}

func forallRange[T specInteger](lo, hi T, f func(T) bool) bool {
	for i := lo; ; i++ {
		if i > hi {
			return true
		}
		if !f(i) {
			return false
		}
		if i == hi {
			return true
		}
	}
}

func existsRange[T specInteger](lo, hi T, f func(T) bool) bool {
	return !forallRange(lo, hi, func(i T) bool { return !f(i) })
}

func old[T any](x T) T { return x }

// rangeidx(): the hidden index of the enclosing range loop (verifier only).
func rangeidx() int { panic("rangeidx is not executable") }

// loopentry(e): the value of e when the enclosing loop was entered (verifier only).
func loopentry[T any](x T) T { return x }

// forallAll: unbounded universal quantification (verifier only; not executable).
func forallAll[T any](f func(T) bool) bool { panic("forallAll is not executable") }

// sameEntries: the two maps return the same value for every key (absent == zero value).
func sameEntries[K comparable, V comparable](a, b map[K]V) bool {
	for k, v := range a {
		if b[k] != v {
			return false
		}
	}
	for k, v := range b {
		if a[k] != v {
			return false
		}
	}
	return true
}

// sameFunc: the two function values are the same function (verifier only).
func sameFunc[T any](a, b T) bool { return true }

// cancelled(): the ghost flag "the search has been told to stop" at this point (verifier only).
func cancelled() bool { return false }

// allocated(p): p is a non-nil reference to an object allocated before (heap classes only).
func allocated[T any](p *T) bool { return p != nil }

// unfold(f(args)) is f(args); the verifier additionally learns f's defining equation at args.
func unfold[T any](x T) T { return x }

func ite[T any](c bool, a, b T) T {
	if c {
		return a
	}
	return b
}
`

func fieldListStr(fl *ast.FieldList, src string) string {
	if fl == nil {
		return ""
	}
	return src[fl.Pos()-1 : fl.End()-1]
}

// paramsOf renders "a T, b U" for the header's params (without parens).
func (b *Block) headerParts() (recv, params, results string) {
	src := ""
	if b.Kind == "assume-dep" || b.Kind == "iface" {
		idx := strings.Index(b.Header, "(")
		src = "package x\nfunc dep" + b.Header[idx:] + " {}"
	} else {
		src = "package x\nfunc " + b.Header + " {}"
	}
	fd := b.decl
	if fd.Recv != nil {
		recv = src[fd.Recv.Pos()-1 : fd.Recv.End()-1]
	}
	p := src[fd.Type.Params.Pos()-1 : fd.Type.Params.End()-1]
	params = strings.TrimSuffix(strings.TrimPrefix(p, "("), ")")
	if fd.Type.Results != nil {
		r := src[fd.Type.Results.Pos()-1 : fd.Type.Results.End()-1]
		if strings.HasPrefix(r, "(") {
			results = strings.TrimSuffix(strings.TrimPrefix(r, "("), ")")
		} else {
			results = r // unnamed single result
		}
	}
	return
}

func (b *Block) ResultNames() []string {
	var out []string
	if b.decl.Type.Results == nil {
		return nil
	}
	for _, f := range b.decl.Type.Results.List {
		for _, n := range f.Names {
			out = append(out, n.Name)
		}
	}
	return out
}

func (b *Block) ParamNames() []string {
	var out []string
	for _, f := range b.decl.Type.Params.List {
		for _, n := range f.Names {
			out = append(out, n.Name)
		}
	}
	return out
}

func (b *Block) RecvName() string {
	if b.decl.Recv != nil && len(b.decl.Recv.List) == 1 && len(b.decl.Recv.List[0].Names) == 1 {
		return b.decl.Recv.List[0].Names[0].Name
	}
	return ""
}

// GenOverlay renders the overlay Go source for the blocks of one package.
// importsNeeded: import lines copied from a "//@ import" directive are not supported;
// specs refer to sibling packages through the imports listed in extraImports.
func GenOverlay(pkgName string, blocks []*Block, extraImports []string) string {
	var sb strings.Builder
	sb.WriteString("//go:build verif\n\npackage " + pkgName + "\n\n")
	if len(extraImports) > 0 {
		sb.WriteString("import (\n")
		for _, im := range extraImports {
			sb.WriteString("\t" + im + "\n")
		}
		sb.WriteString(")\n")
	}
	sb.WriteString(preludeSrc)
	// ghost variables (universally quantified over the whole contract of their block)
	seenGhost := map[string]string{}
	for _, b := range blocks {
		all := append([][2]string(nil), b.Ghosts...)
		for _, w := range b.Witnesses {
			all = append(all, [2]string{w[0], w[1]})
		}
		for _, g := range all {
			if t, dup := seenGhost[g[0]]; dup {
				if t != g[1] {
					fmt.Fprintf(&sb, "\n// ERROR: ghost %s declared with types %s and %s\nvar _ = undefinedGhostConflict_%s\n", g[0], t, g[1], g[0])
				}
				continue
			}
			seenGhost[g[0]] = g[1]
			fmt.Fprintf(&sb, "\nvar %s %s // ghost\n", g[0], g[1])
		}
	}
	for _, b := range blocks {
		recv, params, results := b.headerParts()
		switch b.Kind {
		case "assume", "iface":
			// clause functions are plain functions whose first parameter is the receiver / the value itself
			self := ""
			prefix := ""
			if b.Kind == "assume" {
				self = strings.TrimSuffix(strings.TrimPrefix(recv, "("), ")")
				prefix = "assume_" + b.Recv + "_" + b.Name + "__"
				if b.Recv == "" {
					prefix = "assume_" + b.Name + "__"
				}
			} else {
				self = "self " + b.Recv
				prefix = "iface_" + b.Recv + "_" + b.Name + "__"
			}
			lead := self
			if params != "" {
				if lead != "" {
					lead += ", "
				}
				lead += params
			}
			nreq, nens := 0, 0
			for _, c := range b.Clauses {
				switch c.Kind {
				case "requires":
					c.Name = fmt.Sprintf("%sreq%d", prefix, nreq)
					nreq++
					fmt.Fprintf(&sb, "\nfunc %s(%s) bool {\n\treturn %s\n}\n", c.Name, lead, c.Go)
				case "ensures":
					c.Name = fmt.Sprintf("%sens%d", prefix, nens)
					nens++
					all := lead
					if results != "" {
						if all != "" {
							all += ", "
						}
						all += results
					}
					fmt.Fprintf(&sb, "\nfunc %s(%s) bool {\n\treturn %s\n}\n", c.Name, all, c.Go)
				}
			}
		case "spec":
			if b.Abstract {
				fmt.Fprintf(&sb, "\nfunc %s {\n\tpanic(\"abstract spec function\")\n}\n", b.Header)
				continue
			}
			if b.Body != "" {
				fmt.Fprintf(&sb, "\nfunc %s %s", b.Header, b.Body)
			} else {
				for _, c := range b.Clauses {
					if c.Kind == "specexpr" {
						fmt.Fprintf(&sb, "\nfunc %s {\n\treturn %s\n}\n", b.Header, c.Go)
					}
				}
			}
		case "lemma", "func":
			prefix := b.Name + "__"
			if b.Kind == "lemma" {
				prefix = "lemma_" + b.Name + "__"
			}
			nreq, nens, nkn, nuse := 0, 0, 0, 0
			for _, c := range b.Clauses {
				switch c.Kind {
				case "use":
					if c.IsLoop {
						continue
					}
					c.Name = fmt.Sprintf("%suse%d", prefix, nuse)
					nuse++
					fmt.Fprintf(&sb, "\nfunc %s %s(%s) bool {\n\treturn %s\n}\n", recv, c.Name, params, c.Go)
					if b.Kind == "lemma" && c.ID == b.Name && !c.Quantified {
						// induction: the instance must be smaller in the declared measure
						c.DecName = c.Name + "_dec"
						pn := strings.Join(b.ParamNames(), ", ")
						fmt.Fprintf(&sb, "\nfunc %s(%s) bool {\n\treturn !lemma_%s__reqall%s || (0 <= lemma_%s__dec%s && lemma_%s__dec%s < lemma_%s__dec(%s))\n}\n",
							c.DecName, params, b.Name, c.ArgText, b.Name, c.ArgText, b.Name, c.ArgText, b.Name, pn)
					}
				case "known":
					c.Name = fmt.Sprintf("%sknown%d", prefix, nkn)
					nkn++
					fmt.Fprintf(&sb, "\nfunc %s %s(%s) bool {\n\treturn %s\n}\n", recv, c.Name, params, c.Go)
				case "requires":
					c.Name = fmt.Sprintf("%sreq%d", prefix, nreq)
					nreq++
					fmt.Fprintf(&sb, "\nfunc %s %s(%s) bool {\n\treturn %s\n}\n", recv, c.Name, params, c.Go)
				case "ensures":
					c.Name = fmt.Sprintf("%sens%d", prefix, nens)
					nens++
					all := params
					if results != "" {
						if all != "" {
							all += ", "
						}
						all += results
					}
					fmt.Fprintf(&sb, "\nfunc %s %s(%s) bool {\n\treturn %s\n}\n", recv, c.Name, all, c.Go)
				}
			}
			if b.Kind == "lemma" {
				// lemma_X__holds: the statement of the lemma as a predicate (for `use` clauses)
				var pre, post []string
				names := strings.Join(b.ParamNames(), ", ")
				for _, c := range b.Clauses {
					switch c.Kind {
					case "requires":
						pre = append(pre, fmt.Sprintf("%s(%s)", c.Name, names))
					case "known":
						pre = append(pre, fmt.Sprintf("!%s(%s)", c.Name, names))
					case "ensures":
						post = append(post, fmt.Sprintf("%s(%s)", c.Name, names))
					}
				}
				// a lemma proved by case split holds only inside the split ranges
				for _, c := range b.Clauses {
					if c.Kind == "split" {
						if m := splitRe.FindStringSubmatch(strings.TrimSpace(c.Text)); m != nil {
							pre = append(pre, fmt.Sprintf("(%s >= %s && %s <= %s)", m[1], m[2], m[1], m[3]))
						}
					}
				}
				if len(pre) == 0 {
					pre = []string{"true"}
				}
				fmt.Fprintf(&sb, "\nfunc lemma_%s__holds(%s) bool {\n\treturn !(%s) || (%s)\n}\n", b.Name, params, strings.Join(pre, " && "), strings.Join(post, " && "))
				fmt.Fprintf(&sb, "\nfunc Lemma_%s__holds(%s) bool {\n\treturn lemma_%s__holds(%s)\n}\n", b.Name, params, b.Name, names)
				fmt.Fprintf(&sb, "\nfunc lemma_%s__reqall(%s) bool {\n\treturn %s\n}\n", b.Name, params, strings.Join(pre, " && "))
				for _, c := range b.Clauses {
					if c.Kind == "decreases" {
						fmt.Fprintf(&sb, "\nfunc lemma_%s__dec(%s) int {\n\treturn int(%s)\n}\n", b.Name, params, c.Go)
					}
				}
			}
		}
	}
	return sb.String()
}

// FindContractFiles returns the contracts_verif.go files below root, keyed by directory.
func FindContractFiles(root string) (map[string]string, error) {
	out := map[string]string{}
	err := filepath.Walk(root, func(p string, info os.FileInfo, err error) error {
		if err != nil {
			return err
		}
		if info.IsDir() && (info.Name() == ".git" || info.Name() == "vendor") {
			return filepath.SkipDir
		}
		if !info.IsDir() && info.Name() == "contracts_verif.go" {
			out[filepath.Dir(p)] = p
		}
		return nil
	})
	return out, err
}

func sortedKeys[V any](m map[string]V) []string {
	var ks []string
	for k := range m {
		ks = append(ks, k)
	}
	sort.Strings(ks)
	return ks
}

// lemmaKey: "pkg.name" of a used lemma (the ID may already carry a package qualifier).
func lemmaKey(pkgName, id string) string {
	if strings.Contains(id, ".") {
		return id
	}
	return pkgName + "." + id
}
