package main

import (
	"go/ast"
	"go/token"
	"go/types"
	"strings"

	"golang.org/x/tools/go/packages"
)

const maxCallDepth = 60

func (ex *Exec) evalCall(e *ast.CallExpr, st *State) Value {
	fun := ast.Unparen(e.Fun)
	// conversion?
	if tv, ok := ex.tvOf(fun); ok && tv.IsType() {
		arg := ex.eval(e.Args[0], st)
		return ex.convert(arg, ex.typeOf(e.Args[0]), tv.Type, st, e.Pos())
	}
	// builtin?
	if id, ok := fun.(*ast.Ident); ok {
		if b, ok := ex.objOf(id).(*types.Builtin); ok {
			return ex.callBuiltin(b.Name(), e, st)
		}
		// spec prelude intercepts
		switch id.Name {
		case "loopentry":
			if _, isFn := ex.objOf(id).(*types.Func); isFn && ex.isPrelude(ex.objOf(id)) {
				if ex.loopEntry == nil {
					unsupported("loopentry() outside a loop invariant at %s", ex.pos(e.Pos()))
				}
				tmp := ex.loopEntry.fork(st.pc)
				for l, val := range st.store {
					if _, inBase := ex.base[l]; inBase {
						continue
					}
					if _, have := tmp.store[l]; !have {
						tmp.store[l] = val
					}
				}
				ex.suppress++
				v := ex.eval(e.Args[0], tmp)
				ex.suppress--
				return v
			}
		case "rangeidx":
			if _, isFn := ex.objOf(id).(*types.Func); isFn && ex.isPrelude(ex.objOf(id)) {
				if len(ex.rangeIdx) == 0 {
					unsupported("rangeidx() outside a range loop over a slice of unknown length at %s", ex.pos(e.Pos()))
				}
				return ex.load(st, ex.rangeIdx[len(ex.rangeIdx)-1]).(*Term)
			}
		case "cancelled":
			if _, isFn := ex.objOf(id).(*types.Func); isFn && ex.isPrelude(ex.objOf(id)) {
				return ex.load(st, ex.cancelLoc()).(*Term)
			}
		case "allocated":
			if _, isFn := ex.objOf(id).(*types.Func); isFn && ex.isPrelude(ex.objOf(id)) {
				v := ex.eval(e.Args[0], st)
				if r, ok := v.(*HeapRefV); ok {
					return ex.heapAllocated(st, r)
				}
				return ex.ts.Not(ex.eqValue(v, ex.zeroValue(ex.typeOf(e.Args[0]))))
			}
		case "unfold":
			if _, isFn := ex.objOf(id).(*types.Func); isFn && ex.isPrelude(ex.objOf(id)) {
				return ex.evalUnfold(e, st)
			}
		case "old":
			if _, isFn := ex.objOf(id).(*types.Func); isFn && ex.isPrelude(ex.objOf(id)) {
				if id0, isId := ast.Unparen(e.Args[0]).(*ast.Ident); isId {
					if o := ex.objOf(id0); o != nil {
						if v, have := ex.entryVals[o]; have {
							return v // old(parameter) is its value at function entry
						}
					}
				}
				if ex.oldState == nil {
					unsupported("old() outside postcondition at %s", ex.pos(e.Pos()))
				}
				// evaluate in the pre-state without emitting obligations
				tmp := ex.oldState.fork(st.pc)
				for l, val := range st.store {
					if _, inBase := ex.base[l]; inBase {
						continue // global / heap location: keep its pre-state value
					}
					if _, have := tmp.store[l]; !have {
						tmp.store[l] = val
					}
				}
				ex.suppress++
				v := ex.eval(e.Args[0], tmp)
				ex.suppress--
				return v
			}
		}
	}
	if ix, ok := fun.(*ast.IndexExpr); ok {
		if _, isSig := ex.typeOf(ix.X).Underlying().(*types.Signature); isSig {
			fun = ast.Unparen(ix.X)
		}
	}
	if id, ok := fun.(*ast.Ident); ok {
		if fo, isFn := ex.objOf(id).(*types.Func); isFn && ex.isPrelude(fo) {
			switch id.Name {
			case "sameFunc":
				return ex.eqValue(ex.eval(e.Args[0], st), ex.eval(e.Args[1], st))
			case "sameEntries":
				a, ok1 := ex.eval(e.Args[0], st).(*MapV)
				b, ok2 := ex.eval(e.Args[1], st).(*MapV)
				if !ok1 || !ok2 || a.Nil || b.Nil {
					unsupported("sameEntries on nil or non-map")
				}
				return ex.ts.Eq(a.Val, b.Val)
			case "forallAll":
				fv := ex.eval(e.Args[0], st).(*FuncV)
				sig := ex.typeOf(fv.Lit).(*types.Signature)
				pt := sig.Params().At(0).Type()
				// one bound variable per scalar leaf (a struct-typed variable is a tuple of them)
				var bvs []*Term
				var mk func(t types.Type, name string) Value
				mk = func(t types.Type, name string) Value {
					if bs, ok := scalarSort(t); ok {
						bv := ex.ts.Fresh("q."+name, bs)
						bvs = append(bvs, bv)
						return bv
					}
					if isString(t) {
						bv := ex.ts.Fresh("q."+name, IntSort)
						bvs = append(bvs, bv)
						return &StrV{T: bv}
					}
					if stt, ok := t.Underlying().(*types.Struct); ok {
						sv := &StructV{Fields: make([]Value, stt.NumFields())}
						for i := range sv.Fields {
							sv.Fields[i] = mk(stt.Field(i).Type(), name+"."+stt.Field(i).Name())
						}
						return sv
					}
					if at, ok := t.Underlying().(*types.Array); ok && at.Len() <= 64 {
						av := &ArrayV{Elems: make([]Value, at.Len())}
						for i := range av.Elems {
							av.Elems[i] = mk(at.Elem(), name+"."+itoa(i))
						}
						return av
					}
					unsupported("quantified variable of type %s", t)
					return nil
				}
				arg := mk(pt, sig.Params().At(0).Name())
				s2 := st.fork(st.pc)
				ex.suppress++
				body := ex.callFunc(fv, []Value{arg}, s2, e).(*Term)
				ex.suppress--
				for i := len(bvs) - 1; i >= 0; i-- {
					body = ex.ts.Forall(bvs[i], body)
				}
				return body
			case "forallRange", "existsRange":
				return ex.callQuantRange(id.Name == "forallRange", e, st)
			case "ite":
				c := ex.evalBool(e.Args[0], st)
				if c.IsTrue() {
					return ex.eval(e.Args[1], st)
				}
				if c.IsFalse() {
					return ex.eval(e.Args[2], st)
				}
				s1 := st.fork(ex.ts.And(st.pc, c))
				a := ex.eval(e.Args[1], s1)
				s2 := st.fork(ex.ts.And(st.pc, ex.ts.Not(c)))
				b := ex.eval(e.Args[2], s2)
				return ex.iteValue(c, a, b)
			}
		}
	}
	fv := ex.eval(fun, st)
	f, ok := fv.(*FuncV)
	if !ok {
		unsupported("call of %T at %s", fv, ex.pos(e.Pos()))
	}
	// arguments
	var args []Value
	sig, _ := ex.typeOf(fun).Underlying().(*types.Signature)
	if len(e.Args) == 1 && sig != nil && sig.Params().Len() > 1 {
		if tv, ok := ex.eval(e.Args[0], st).(*TupleV); ok {
			args = tv.Vals
		}
	}
	if args == nil {
		for i, a := range e.Args {
			var want types.Type
			if sig != nil {
				if sig.Variadic() && i >= sig.Params().Len()-1 {
					want = sig.Params().At(sig.Params().Len() - 1).Type().(*types.Slice).Elem()
					if e.Ellipsis != token.NoPos {
						want = sig.Params().At(sig.Params().Len() - 1).Type()
					}
				} else if i < sig.Params().Len() {
					want = sig.Params().At(i).Type()
				}
			}
			args = append(args, ex.convertAssign(ex.evalTo(a, st, want), want, st))
		}
		if sig != nil && sig.Variadic() && e.Ellipsis == token.NoPos {
			np := sig.Params().Len() - 1
			rest := args[np:]
			et := sig.Params().At(np).Type().(*types.Slice).Elem()
			l := ex.newLoc("variadic", types.NewArray(et, int64(len(rest))))
			st.store[l] = &ArrayV{Elems: append([]Value(nil), rest...)}
			var sv Value = &SliceV{Loc: l, Len: len(rest), Cap: len(rest)}
			if len(rest) == 0 {
				sv = &SliceV{Nil: true}
			}
			args = append(args[:np:np], sv)
		}
	}
	return ex.callFunc(f, args, st, e)
}

func (ex *Exec) isPrelude(o types.Object) bool {
	if o == nil || o.Pos() == token.NoPos {
		return false
	}
	return strings.HasSuffix(ex.prog.Fset.Position(o.Pos()).Filename, overlayName)
}

func (ex *Exec) callQuantRange(forall bool, e *ast.CallExpr, st *State) Value {
	lo := ex.eval(e.Args[0], st).(*Term)
	hi := ex.eval(e.Args[1], st).(*Term)
	if lo.Op != OpConst || hi.Op != OpConst {
		unsupported("quantifier range must be constant at %s", ex.pos(e.Pos()))
	}
	fv := ex.eval(e.Args[2], st).(*FuncV)
	_, signed, _ := intInfo(ex.typeOf(e.Args[0]))
	w := lo.Sort.W
	l, h := int64(lo.BV), int64(hi.BV)
	if signed {
		l, h = signExt(lo.BV, w), signExt(hi.BV, w)
	}
	acc := ex.ts.Bool(forall)
	for i := l; i <= h; i++ {
		// each instance is evaluated under the path condition only; instances are independent
		s2 := st.fork(st.pc)
		r := ex.callFunc(fv, []Value{ex.ts.BV(uint64(i), w)}, s2, e).(*Term)
		if forall {
			acc = ex.ts.And(acc, r)
		} else {
			acc = ex.ts.Or(acc, r)
		}
	}
	return acc
}

func (ex *Exec) callBuiltin(name string, e *ast.CallExpr, st *State) Value {
	ts := ex.ts
	switch name {
	case "len", "cap":
		v := ex.eval(e.Args[0], st)
		switch x := v.(type) {
		case *SliceV:
			if name == "cap" {
				return ts.BV(uint64(x.Cap), 64)
			}
			return ts.BV(uint64(x.Len), 64)
		case *SymSliceV:
			return x.Len
		case *ArrayV:
			return ts.BV(uint64(len(x.Elems)), 64)
		case *StrV:
			if x.Concrete {
				return ts.BV(uint64(len(x.S)), 64)
			}
			return ex.strLen(x)
		case *MapV:
			unsupported("len of map")
		case *PtrV:
			av := ex.getPath(ex.load(st, x.Loc), x.Path, st, e.Pos()).(*ArrayV)
			return ts.BV(uint64(len(av.Elems)), 64)
		}
		unsupported("len of %T at %s", v, ex.pos(e.Pos()))
	case "append":
		return ex.builtinAppend(e, st)
	case "make":
		t := ex.typeOf(e.Args[0])
		switch u := t.Underlying().(type) {
		case *types.Slice:
			n := ex.eval(e.Args[1], st).(*Term)
			c := n
			if len(e.Args) > 2 {
				c = ex.eval(e.Args[2], st).(*Term)
			}
			if n.Op != OpConst || c.Op != OpConst {
				return ex.makeSymSlice(st, u, n, e.Pos())
			}
			ln, cp := int(n.BV), int(c.BV)
			l := ex.newLoc("make", types.NewArray(u.Elem(), int64(cp)))
			ex.escaped[l] = true
			elems := make([]Value, cp)
			if cp > 0 {
				z := ex.zeroValue(u.Elem())
				for i := range elems {
					elems[i] = z
				}
			}
			st.store[l] = &ArrayV{Elems: elems}
			return &SliceV{Loc: l, Len: ln, Cap: cp}
		case *types.Map:
			return ex.makeMap(st, u)
		}
		unsupported("make(%s) at %s", t, ex.pos(e.Pos()))
	case "new":
		t := ex.typeOf(e.Args[0])
		l := ex.newLoc("new", t)
		ex.escaped[l] = true
		st.store[l] = ex.zeroValue(t)
		return &PtrV{Loc: l}
	case "panic":
		ex.assert(st, "safety.panic", ts.False(), e.Pos(), "explicit panic unreachable")
		st.pc = ts.False()
		return nil
	case "copy":
		unsupported("copy at %s", ex.pos(e.Pos()))
	case "min", "max":
		r := ex.eval(e.Args[0], st)
		t := ex.typeOf(e.Args[0])
		for _, a := range e.Args[1:] {
			v := ex.eval(a, st)
			var lt *Term
			if name == "min" {
				lt = ex.binop(token.LSS, v, r, t, t, st, e.Pos()).(*Term)
			} else {
				lt = ex.binop(token.LSS, r, v, t, t, st, e.Pos()).(*Term)
			}
			r = ex.iteValue(lt, v, r)
		}
		return r
	case "delete":
		ex.mapDelete(st, e)
		return nil
	}
	unsupported("builtin %s at %s", name, ex.pos(e.Pos()))
	return nil
}

func (ex *Exec) builtinAppend(e *ast.CallExpr, st *State) Value {
	base := ex.eval(e.Args[0], st)
	st0 := ex.typeOf(e.Args[0]).Underlying().(*types.Slice)
	var add []Value
	if e.Ellipsis != token.NoPos {
		src := ex.eval(e.Args[1], st)
		switch s := src.(type) {
		case *SliceV:
			if s.Len > 0 {
				back := ex.load(st, s.Loc).(*ArrayV)
				add = append(add, back.Elems[s.Off:s.Off+s.Len]...)
			}
		case *SymSliceV:
			return ex.symAppendSlice(st, base, s, st0, e.Pos())
		default:
			unsupported("append of %T... at %s", src, ex.pos(e.Pos()))
		}
	} else {
		for _, a := range e.Args[1:] {
			add = append(add, ex.eval(a, st))
		}
	}
	switch b := base.(type) {
	case *SymSliceV:
		return ex.symAppend(st, b, add, e.Pos())
	case *SliceV:
		if len(add) == 0 {
			return b
		}
		if !b.Nil && b.Len+len(add) <= b.Cap {
			back := ex.load(st, b.Loc).(*ArrayV)
			nb := &ArrayV{Elems: append([]Value(nil), back.Elems...)}
			for i, v := range add {
				nb.Elems[b.Off+b.Len+i] = v
			}
			st.store[b.Loc] = nb
			return &SliceV{Loc: b.Loc, Off: b.Off, Len: b.Len + len(add), Cap: b.Cap}
		}
		var elems []Value
		if !b.Nil && b.Len > 0 {
			back := ex.load(st, b.Loc).(*ArrayV)
			elems = append(elems, back.Elems[b.Off:b.Off+b.Len]...)
		}
		elems = append(elems, add...)
		l := ex.newLoc("append", types.NewArray(st0.Elem(), int64(len(elems))))
		ex.escaped[l] = true
		st.store[l] = &ArrayV{Elems: elems}
		return &SliceV{Loc: l, Len: len(elems), Cap: len(elems)}
	}
	unsupported("append to %T at %s", base, ex.pos(e.Pos()))
	return nil
}

// callFunc dispatches a call of a function value with evaluated arguments.
func (ex *Exec) callFunc(f *FuncV, args []Value, st *State, site *ast.CallExpr) Value {
	if f.AbstractID != nil {
		return ex.callAbstractFunc(f, args, st, site)
	}
	if f.Obj != nil && f.Recv != nil {
		switch f.Recv.(type) {
		case *AbstractIfaceV, *IfaceV:
			return ex.callInterface(f, f.Recv, args, st, site)
		}
	}
	if f.Named != "" {
		return ex.callExternal(f, args, st, site)
	}
	if f.Lit != nil {
		return ex.inline(nil, f.Lit, f.Pkg, f.Env, nil, args, st, site)
	}
	fi := ex.prog.Funcs[f.Obj]
	if fi == nil && f.Recv != nil {
		switch f.Recv.(type) {
		case *AbstractIfaceV, *IfaceV:
			return ex.callInterface(f, f.Recv, args, st, site)
		}
	}
	if fi == nil || fi.Decl.Body == nil {
		return ex.callExternal(&FuncV{Named: f.Obj.FullName(), Obj: f.Obj, Recv: f.Recv}, args, st, site)
	}
	recv := f.Recv
	if len(ex.uninterp) > 0 {
		if recv == nil && ex.uninterp[fi.Pkg.Name+"."+fi.Decl.Name.Name] {
			return ex.callUninterpreted(fi, args, st)
		}
		if recv != nil {
			// method with a value receiver: the receiver is the first argument
			if sig := fi.Obj.Type().(*types.Signature); sig.Recv() != nil && valueOnly(sig.Recv().Type()) &&
				ex.uninterp[fi.Pkg.Name+"."+recvTypeName(sig.Recv().Type())+"."+fi.Decl.Name.Name] {
				return ex.callUninterpreted(fi, append([]Value{recv}, args...), st)
			}
		}
	}
	if len(ex.prog.OpaqueSpec) > 0 {
		rn := ""
		if sig := fi.Obj.Type().(*types.Signature); sig.Recv() != nil {
			rn = recvTypeName(sig.Recv().Type())
		}
		if ex.prog.OpaqueSpec[funcKey(fi.Pkg.PkgPath, rn, fi.Decl.Name.Name)] {
			nm := fi.Decl.Name.Name
			if !ex.revealed[nm] {
				return ex.callOpaqueSpec(fi, recv, args, st)
			}
			// revealed: unfold the definition once; nested calls of the same function stay opaque
			ex.revealed[nm] = false
			v := ex.inline(fi, nil, fi.Pkg, nil, recv, args, st, site)
			ex.revealed[nm] = true
			return v
		}
	}
	if recv != nil {
		if _, isIface := f.Obj.Type().(*types.Signature).Recv().Type().Underlying().(*types.Interface); isIface {
			return ex.callInterface(f, recv, args, st, site)
		}
	}
	// assumed contract declared by the package under verification for this (foreign) function
	if as := ex.prog.Assumes[ex.targetPkg]; as != nil {
		rn := ""
		if sig := fi.Obj.Type().(*types.Signature); sig.Recv() != nil {
			rn = recvTypeName(sig.Recv().Type())
		}
		if blk := as[fi.Pkg.Name+"."+rn+"."+fi.Decl.Name.Name]; blk != nil && !ex.forceInline[rn+"."+fi.Decl.Name.Name] {
			return ex.contractCall(blk, nil, leadOf(recv), args, resultTypes(fi), st, site)
		}
	}
	// recursion goes through the function's own contract
	if ex.recursing != nil && ex.recursing.fi == fi && len(ex.frames) > 1 {
		var rcv Value
		if ex.recursing.blk.Kind == "func" {
			rcv = recv
		}
		return ex.contractCall(ex.recursing.blk, rcv, nil, args, resultTypes(fi), st, site)
	}
	if blk := ex.blockFor(fi); blk != nil {
		if v, handled := ex.callWithContract(fi, blk, recv, args, st, site); handled {
			return v
		}
	}
	return ex.inline(fi, nil, fi.Pkg, nil, recv, args, st, site)
}

func (ex *Exec) blockFor(fi *FuncInfo) *Block {
	recv := ""
	if sig := fi.Obj.Type().(*types.Signature); sig.Recv() != nil {
		recv = recvTypeName(sig.Recv().Type())
	}
	return ex.prog.Blocks[funcKey(fi.Pkg.PkgPath, recv, fi.Decl.Name.Name)]
}

func (ex *Exec) inline(fi *FuncInfo, lit *ast.FuncLit, pkg *packages.Package, env *Env, recv Value, args []Value, st *State, site *ast.CallExpr) Value {
	if len(ex.frames) > maxCallDepth {
		unsupported("call depth exceeded (recursion needs a contract) at %s", ex.pos(site.Pos()))
	}
	fr := &frame{fi: fi, env: NewEnv(env), lit: lit}
	var ftype *ast.FuncType
	var body *ast.BlockStmt
	var recvField *ast.FieldList
	if fi != nil {
		fr.pkg = fi.Pkg
		ftype = fi.Decl.Type
		body = fi.Decl.Body
		recvField = fi.Decl.Recv
		fr.name = fi.Obj.FullName()
	} else {
		fr.pkg = pkg
		ftype = lit.Type
		body = lit.Body
		fr.name = "func literal"
	}
	ex.frames = append(ex.frames, fr)
	defer func() { ex.frames = ex.frames[:len(ex.frames)-1] }()
	ex.pushScope()
	if recvField != nil && len(recvField.List) == 1 && len(recvField.List[0].Names) == 1 {
		n := recvField.List[0].Names[0]
		if n.Name != "_" {
			ex.declare(st, ex.defObj(fr.pkg, n), recv)
		}
	}
	i := 0
	recordEntry := fi != nil && ex.recursing != nil && ex.recursing.fi == fi && len(ex.frames) == 2
	for _, fld := range ftype.Params.List {
		if len(fld.Names) == 0 {
			i++
			continue
		}
		for _, n := range fld.Names {
			if n.Name != "_" {
				obj := ex.defObj(fr.pkg, n)
				ex.declare(st, obj, args[i])
				if recordEntry {
					ex.entryVals[obj] = args[i]
				}
			}
			i++
		}
	}
	nres := 0
	if ftype.Results != nil {
		for _, fld := range ftype.Results.List {
			if len(fld.Names) == 0 {
				nres++
				continue
			}
			for _, n := range fld.Names {
				obj := ex.defObj(fr.pkg, n)
				l := ex.declare(st, obj, ex.zeroValue(obj.Type()))
				fr.results = append(fr.results, l)
				nres++
			}
		}
	}
	fl := ex.execBlock(body.List, st)
	var merged *State
	var vals []Value
	add := func(s *State, vs []Value) {
		if s == nil || s.pc.IsFalse() {
			return
		}
		if merged == nil {
			merged = s
			vals = vs
			return
		}
		merged, vals = ex.mergeRet(s, vs, merged, vals)
	}
	for _, r := range fl.Returns {
		add(r.St, append([]Value(nil), r.Vals...))
	}
	if fl.Normal != nil {
		var vs []Value
		for _, l := range fr.results {
			vs = append(vs, ex.load(fl.Normal, l))
		}
		if len(vs) != nres && nres > 0 {
			// falls off the end of a function with results: unreachable in valid Go
			fl.Normal = nil
		} else {
			add(fl.Normal, vs)
		}
	}
	if merged == nil {
		// every path diverged (panic)
		st.pc = ex.ts.False()
		ex.popScope(st)
		if nres == 1 {
			return ex.zeroValueSig(fi, lit, 0)
		}
		if nres > 1 {
			tv := &TupleV{}
			for k := 0; k < nres; k++ {
				tv.Vals = append(tv.Vals, ex.zeroValueSig(fi, lit, k))
			}
			return tv
		}
		return nil
	}
	ex.popScope(merged)
	*st = *merged
	switch len(vals) {
	case 0:
		return nil
	case 1:
		return vals[0]
	}
	return &TupleV{Vals: vals}
}


func (ex *Exec) zeroValueSig(fi *FuncInfo, lit *ast.FuncLit, k int) Value {
	var sig *types.Signature
	if fi != nil {
		sig = fi.Obj.Type().(*types.Signature)
	} else {
		sig = ex.typeOf(lit).(*types.Signature)
	}
	return ex.zeroValue(sig.Results().At(k).Type())
}

func (ex *Exec) callInterface(f *FuncV, recv Value, args []Value, st *State, site *ast.CallExpr) Value {
	// find the dynamic type's method
	var dyn types.Type
	var rv Value
	switch r := recv.(type) {
	case *IfaceV:
		if r.Nil {
			ex.assert(st, "safety.nil", ex.ts.False(), site.Pos(), "nil interface call")
			st.pc = ex.ts.False()
			return nil
		}
		dyn, rv = r.Typ, r.V
	case *AbstractIfaceV:
		return ex.callAbstractIface(r, f, args, st, site)
	default:
		unsupported("interface call on %T at %s (needs an iface contract)", recv, ex.pos(site.Pos()))
	}
	obj, _, _ := types.LookupFieldOrMethod(dyn, true, f.Obj.Pkg(), f.Obj.Name())
	m, ok := obj.(*types.Func)
	if !ok {
		unsupported("method %s not found on %s", f.Obj.Name(), dyn)
	}
	return ex.callFunc(ex.funcValue(m, rv).(*FuncV), args, st, site)
}

// callOpaqueSpec applies an opaque spec function as an uninterpreted function of the
// scalar leaves of its arguments (pointers are dereferenced in the current state).
func (ex *Exec) callOpaqueSpec(fi *FuncInfo, recv Value, args []Value, st *State) Value {
	var leaves []*Term
	if recv != nil {
		ex.flattenAny(recv, st, &leaves)
	}
	sig := fi.Obj.Type().(*types.Signature)
	for i, a := range args {
		// slices always in the (length, contents) form, whatever their representation (nil,
		// concrete backing array or unknown length), so that every application has one shape
		if i < sig.Params().Len() {
			if stp, ok := sig.Params().At(i).Type().Underlying().(*types.Slice); ok {
				if sv, isSlice := a.(*SliceV); isSlice {
					a = ex.toSym(st, sv, stp.Elem())
				}
			}
		}
		ex.flattenAny(a, st, &leaves)
	}
	if sig.Results().Len() != 1 {
		unsupported("opaque spec function must have one result")
	}
	return ex.ufResult("spec."+fi.Pkg.Name+"."+fi.Decl.Name.Name, sig.Results().At(0).Type(), leaves, st)
}

// evalUnfold evaluates unfold(f(args)) for an opaque spec function f: the result is the
// opaque application; the definitional equation f(args) == body(args) (nested calls of f
// opaque) is added as a fact.
func (ex *Exec) evalUnfold(e *ast.CallExpr, st *State) Value {
	inner, ok := ast.Unparen(e.Args[0]).(*ast.CallExpr)
	if !ok {
		unsupported("unfold wants a call at %s", ex.pos(e.Pos()))
	}
	id, ok := ast.Unparen(inner.Fun).(*ast.Ident)
	if !ok {
		unsupported("unfold wants a plain spec function call at %s", ex.pos(e.Pos()))
	}
	fo, _ := ex.objOf(id).(*types.Func)
	fi := ex.prog.Funcs[fo]
	if fi == nil || !ex.prog.OpaqueSpec[funcKey(fi.Pkg.PkgPath, "", fi.Decl.Name.Name)] {
		unsupported("unfold of a function that is not an opaque spec function at %s", ex.pos(e.Pos()))
	}
	var args []Value
	for _, a := range inner.Args {
		args = append(args, ex.eval(a, st))
	}
	nm := fi.Decl.Name.Name
	was := ex.revealed[nm]
	ex.revealed[nm] = false
	atom := ex.callOpaqueSpec(fi, nil, args, st)
	s2 := st.fork(st.pc)
	ex.suppress++
	body := ex.inline(fi, nil, fi.Pkg, nil, nil, args, s2, inner)
	ex.suppress--
	ex.revealed[nm] = was
	// definitional equality: leaf by leaf, bit for bit
	var la, lb []*Term
	ex.flattenAny(atom, st, &la)
	ex.flattenAny(body, s2, &lb)
	if len(la) != len(lb) || len(la) == 0 {
		unsupported("unfold: result shapes differ")
	}
	for i := range la {
		// a definition holds everywhere, not only on this path
		ex.facts = append(ex.facts, ex.ts.Eq(la[i], lb[i]))
	}
	ex.assumptions["definitional unfolding of recursive spec function "+nm+" (termination of its recursion is assumed)"] = true
	return atom
}

func (ex *Exec) defObj(pk *packages.Package, id *ast.Ident) types.Object {
	if o, ok := pk.TypesInfo.Defs[id]; ok && o != nil {
		return o
	}
	ex.prog.extraMu.RLock()
	defer ex.prog.extraMu.RUnlock()
	return ex.prog.Extra.Defs[id]
}

func leadOf(recv Value) []Value {
	if recv == nil {
		return nil
	}
	return []Value{recv}
}

func resultTypes(fi *FuncInfo) []types.Type {
	sig := fi.Obj.Type().(*types.Signature)
	var out []types.Type
	for i := 0; i < sig.Results().Len(); i++ {
		out = append(out, sig.Results().At(i).Type())
	}
	return out
}

// callUninterpreted: the block under verification asked to treat this function as an arbitrary
// pure function of its arguments (clause `uninterpreted pkg.F`). Sound for any proof because the
// real function is one such function, provided it is deterministic and free of effects: checked
// syntactically here (value parameters only, no writes to package state anywhere below it).
func (ex *Exec) callUninterpreted(fi *FuncInfo, args []Value, st *State) Value {
	ex.checkPure(fi)
	var flat []*Term
	for _, a := range args {
		ex.flattenAny(a, st, &flat)
	}
	res := resultTypes(fi)
	if len(res) == 0 {
		unsupported("uninterpreted %s: a result is expected", fi.Decl.Name.Name)
	}
	nm := fi.Pkg.Name + "." + fi.Decl.Name.Name
	if sig := fi.Obj.Type().(*types.Signature); sig.Recv() != nil {
		nm = fi.Pkg.Name + "." + recvTypeName(sig.Recv().Type()) + "." + fi.Decl.Name.Name
	}
	ex.assumptions["calls of "+nm+" treated as an uninterpreted pure function in this block (no panic for in-range arguments and its meaning are established by lemmas of its own package that inline it)"] = true
	if len(res) == 1 {
		return ex.ufResult("pure."+nm, res[0], flat, st)
	}
	tv := &TupleV{}
	for i, rt := range res {
		tv.Vals = append(tv.Vals, ex.ufResult("pure."+nm+"#"+itoa(i), rt, flat, st))
	}
	return tv
}

func (ex *Exec) checkPure(fi *FuncInfo) {
	if ex.pureOK == nil {
		ex.pureOK = map[*FuncInfo]bool{}
	}
	if ex.pureOK[fi] {
		return
	}
	sig := fi.Obj.Type().(*types.Signature)
	for i := 0; i < sig.Params().Len(); i++ {
		if !valueOnly(sig.Params().At(i).Type()) {
			unsupported("uninterpreted %s: parameter %s is not a plain value", fi.Decl.Name.Name, sig.Params().At(i).Name())
		}
	}
	seen := map[*FuncInfo]bool{}
	var walk func(f *FuncInfo)
	walk = func(f *FuncInfo) {
		if seen[f] {
			return
		}
		seen[f] = true
		info := f.Pkg.TypesInfo
		ast.Inspect(f.Decl.Body, func(n ast.Node) bool {
			switch x := n.(type) {
			case *ast.GoStmt, *ast.SendStmt, *ast.DeferStmt, *ast.SelectStmt:
				unsupported("uninterpreted %s: %T in %s", fi.Decl.Name.Name, n, f.Decl.Name.Name)
			case *ast.AssignStmt:
				for _, l := range x.Lhs {
					if id := rootIdent(l); id != nil {
						if v, ok := info.ObjectOf(id).(*types.Var); ok && v.Parent() == v.Pkg().Scope() {
							unsupported("uninterpreted %s: %s writes package variable %s", fi.Decl.Name.Name, f.Decl.Name.Name, v.Name())
						}
					}
					if _, isStar := ast.Unparen(l).(*ast.StarExpr); isStar {
						unsupported("uninterpreted %s: %s writes through a pointer", fi.Decl.Name.Name, f.Decl.Name.Name)
					}
				}
			case *ast.Ident:
				if v, ok := info.ObjectOf(x).(*types.Var); ok && v.Pkg() != nil && v.Parent() == v.Pkg().Scope() {
					if w := ex.prog.Written[v]; len(w) > 0 {
						unsupported("uninterpreted %s: reads package variable %s that is written outside init", fi.Decl.Name.Name, v.Name())
					}
				}
			case *ast.CallExpr:
				var obj types.Object
				switch fn := ast.Unparen(x.Fun).(type) {
				case *ast.Ident:
					obj = info.ObjectOf(fn)
				case *ast.SelectorExpr:
					obj = info.ObjectOf(fn.Sel)
				}
				if fo, ok := obj.(*types.Func); ok {
					if callee := ex.prog.Funcs[fo]; callee != nil && callee.Decl.Body != nil {
						walk(callee)
					} else if fo.Pkg() != nil && fo.Pkg().Path() != "math/bits" {
						unsupported("uninterpreted %s: calls %s outside the module", fi.Decl.Name.Name, fo.FullName())
					}
				}
			}
			return true
		})
	}
	walk(fi)
	ex.pureOK[fi] = true
}

func valueOnly(t types.Type) bool {
	switch u := t.Underlying().(type) {
	case *types.Basic:
		return u.Kind() != types.UnsafePointer
	case *types.Struct:
		for i := 0; i < u.NumFields(); i++ {
			if !valueOnly(u.Field(i).Type()) {
				return false
			}
		}
		return true
	case *types.Array:
		return valueOnly(u.Elem())
	}
	return false
}
