package main

import (
	"fmt"
	"go/ast"
	"go/token"
	"go/types"
	"strings"
	"sync"
	"time"

	"golang.org/x/tools/go/packages"
)

type State struct {
	pc    *Term
	store map[*Loc]Value
}

type Obligation struct {
	Name   string
	Kind   string
	NFacts int
	PC     *Term
	Goal   *Term
	Pos    string
	Note   string
	// Focus names the loop invariant clause this obligation re-establishes: a first attempt
	// drops the quantified hypotheses that stem from the other invariant clauses.
	Focus string
}

// Cover is a reachability guard: the path condition must be satisfiable together with the facts,
// otherwise everything proved beyond that point is vacuous.
type Cover struct {
	Name   string
	NFacts int
	PC     *Term
}

type Exit struct {
	Label string
	St    *State
}

type Flow struct {
	Normal  *State
	Breaks  []Exit
	Conts   []Exit
	Returns []*RetState
}

type RetState struct {
	St   *State
	Vals []Value
}

type frame struct {
	fi      *FuncInfo
	pkg     *packages.Package
	env     *Env
	results []*Loc // named or synthesized result locations
	decl    [][]*Loc
	depth   int
	name    string
	lit     *ast.FuncLit
}

type Exec struct {
	prog       *Prog
	ts         *TermStore
	base       map[*Loc]Value
	globals    map[*types.Var]*Loc
	initStore  map[*Loc]Value
	inputs     []*InputVar
	obls       []*Obligation
	facts      []*Term
	frames     []*frame
	target     string
	oldState   *State
	suppress   int
	locCounter int
	escaped    map[*Loc]bool
	initDone   map[string]bool
	initBusy   map[string]bool
	oblCount   map[string]int
	loopBound  int // default unroll bound for symbolic loops
	steps      int64
	usedContracts map[string]bool
	assumptions   map[string]bool
	noSafety   bool
	revealed   map[string]bool
	curMergeA, curMergeB *State
	feasCache  map[*Term]bool
	pendingLocs []pendingLoc
	deadValue  Value
	binding    map[string]int64
	boundSeen  map[string]bool
	smtMu      sync.Mutex
	goalValid  map[*Term]bool
	heapClasses map[string]*heapClass
	forceInline map[string]bool
	uninterp    map[string]bool // pkgname.Func treated as an uninterpreted pure function in this block
	pureOK      map[*FuncInfo]bool
	recursing   *recursion
	cancelL     *Loc
	cancelModel bool
	targetPkg   string
	entryVals   map[types.Object]Value
	covers      []*Cover
	quantFact   map[*Term]bool
	factTag     map[*Term]string
	rangeIdx    []*Loc // hidden indices of the enclosing range loops over slices of unknown length
	curFocus    string
	inGlobalInit int
	loopEntry   *State
	curBlock    *Block
}

func NewExec(prog *Prog, ts *TermStore) *Exec {
	return &Exec{prog: prog, ts: ts, base: map[*Loc]Value{}, globals: map[*types.Var]*Loc{}, initStore: map[*Loc]Value{},
		escaped: map[*Loc]bool{}, initDone: map[string]bool{}, initBusy: map[string]bool{}, oblCount: map[string]int{}, loopBound: 8,
		usedContracts: map[string]bool{}, assumptions: map[string]bool{}, revealed: map[string]bool{}, boundSeen: map[string]bool{}, goalValid: map[*Term]bool{}, heapClasses: map[string]*heapClass{}, forceInline: map[string]bool{}, entryVals: map[types.Object]Value{}}
}

// Clone makes an independent executor sharing the (immutable) base store.
func (ex *Exec) Clone() *Exec {
	n := NewExec(ex.prog, ex.ts.Clone())
	for k, v := range ex.base {
		n.base[k] = v
	}
	for k, v := range ex.globals {
		n.globals[k] = v
	}
	for k, v := range ex.initDone {
		n.initDone[k] = v
	}
	n.locCounter = ex.locCounter
	return n
}

func (ts *TermStore) Clone() *TermStore {
	n := &TermStore{tab: make(map[termKey]*Term, len(ts.tab)+1024), decls: make(map[string]*Decl, len(ts.decls)), next: ts.next, fresh: ts.fresh}
	for k, v := range ts.tab {
		n.tab[k] = v
	}
	for k, v := range ts.decls {
		n.decls[k] = v
	}
	return n
}

func (ex *Exec) newState() *State {
	st := &State{pc: ex.ts.True(), store: map[*Loc]Value{}}
	for k, v := range ex.initStore {
		st.store[k] = v
	}
	return st
}

func (st *State) fork(pc *Term) *State {
	n := &State{pc: pc, store: make(map[*Loc]Value, len(st.store)+8)}
	for k, v := range st.store {
		n.store[k] = v
	}
	return n
}

func (ex *Exec) load(st *State, l *Loc) Value {
	if v, ok := st.store[l]; ok {
		return v
	}
	if v, ok := ex.base[l]; ok {
		return v
	}
	unsupported("read of unknown location %s", l.Name)
	return nil
}

func (ex *Exec) cur() *frame { return ex.frames[len(ex.frames)-1] }

func (ex *Exec) info() *types.Info { return ex.cur().pkg.TypesInfo }

func (ex *Exec) typeOf(e ast.Expr) types.Type {
	if tv, ok := ex.info().Types[e]; ok {
		return tv.Type
	}
	ex.prog.extraMu.RLock()
	tv, ok := ex.prog.Extra.Types[e]
	ex.prog.extraMu.RUnlock()
	if ok {
		return tv.Type
	}
	if id, ok := e.(*ast.Ident); ok {
		if o := ex.objOf(id); o != nil {
			return o.Type()
		}
	}
	unsupported("no type for expression at %s", ex.pos(e.Pos()))
	return nil
}

func (ex *Exec) tvOf(e ast.Expr) (types.TypeAndValue, bool) {
	if tv, ok := ex.info().Types[e]; ok {
		return tv, true
	}
	ex.prog.extraMu.RLock()
	tv, ok := ex.prog.Extra.Types[e]
	ex.prog.extraMu.RUnlock()
	return tv, ok
}

func (ex *Exec) objOf(id *ast.Ident) types.Object {
	inf := ex.info()
	if o, ok := inf.Uses[id]; ok {
		return o
	}
	if o, ok := inf.Defs[id]; ok {
		return o
	}
	ex.prog.extraMu.RLock()
	defer ex.prog.extraMu.RUnlock()
	if o, ok := ex.prog.Extra.Uses[id]; ok {
		return o
	}
	if o, ok := ex.prog.Extra.Defs[id]; ok {
		return o
	}
	return nil
}

func (ex *Exec) selOf(s *ast.SelectorExpr) *types.Selection {
	if x, ok := ex.info().Selections[s]; ok {
		return x
	}
	ex.prog.extraMu.RLock()
	defer ex.prog.extraMu.RUnlock()
	if x, ok := ex.prog.Extra.Selections[s]; ok {
		return x
	}
	return nil
}

func (ex *Exec) pos(p token.Pos) string {
	ps := ex.prog.Fset.Position(p)
	return fmt.Sprintf("%s:%d", shortPath(ps.Filename), ps.Line)
}

func shortPath(s string) string {
	const pfx = "/repo/"
	if len(s) > len(pfx) && s[:len(pfx)] == pfx {
		return s[len(pfx):]
	}
	return s
}

// assert emits a proof obligation under the current path condition.
func (ex *Exec) assert(st *State, kind string, goal *Term, p token.Pos, note string) {
	if ex.suppress > 0 {
		return
	}
	if ex.noSafety && len(kind) > 6 && kind[:6] == "safety" {
		return
	}
	base := ex.target + "#" + kind
	ex.oblCount[base]++
	name := fmt.Sprintf("%s.%d", base, ex.oblCount[base]-1)
	ps := ""
	if p != token.NoPos {
		ps = ex.pos(p)
	}
	if conjunctOf(st.pc, goal, 256) {
		goal = ex.ts.True() // already part of the path condition
	}
	ex.obls = append(ex.obls, &Obligation{Name: name, Kind: kind, NFacts: len(ex.facts), PC: st.pc, Goal: goal, Pos: ps, Note: note, Focus: ex.curFocus})
	// later obligations on this path may rely on it
	f := ex.ts.Implies(st.pc, goal)
	ex.facts = append(ex.facts, f)
	if ex.curFocus != "" {
		ex.tagFact(f, ex.curFocus+".post")
	}
}

func (ex *Exec) assume(st *State, fact *Term) {
	f := ex.ts.Implies(st.pc, fact)
	ex.facts = append(ex.facts, f)
	if ex.curFocus != "" {
		ex.tagFact(f, ex.curFocus)
	}
}

func (ex *Exec) tagFact(f *Term, tag string) {
	if ex.factTag == nil {
		ex.factTag = map[*Term]string{}
	}
	if _, have := ex.factTag[f]; !have {
		ex.factTag[f] = tag
	}
}

// mergeStates joins two states; c selects a (else b).
func (ex *Exec) mergeStates(a, b *State) (res *State) {
	if a == nil {
		return b
	}
	if b == nil {
		return a
	}
	ex.curMergeA, ex.curMergeB = a, b
	defer func() {
		if r := recover(); r != nil {
			u, ok := r.(*unsupportedErr)
			if !ok || !strings.HasPrefix(u.msg, "merge of") {
				panic(r)
			}
			// values of incompatible shape: one of the two paths may be infeasible
			if !ex.feasible(a) {
				res = b
				return
			}
			if !ex.feasible(b) {
				res = a
				return
			}
			panic(r)
		}
	}()
	c := ex.selector(a, b)
	n := &State{pc: ex.ts.OrPC(a.pc, b.pc), store: make(map[*Loc]Value, len(a.store))}
	for k, va := range a.store {
		vb, ok := b.store[k]
		if !ok {
			// not written on path b: a global / heap location keeps its base value there
			if base, inBase := ex.base[k]; inBase {
				vb, ok = base, true
			}
		}
		if ok {
			if va == vb {
				n.store[k] = va
			} else {
				n.store[k] = ex.iteValue(c, va, vb)
			}
		} else {
			n.store[k] = va
		}
	}
	for k, vb := range b.store {
		if _, ok := a.store[k]; !ok {
			if base, inBase := ex.base[k]; inBase && base != vb {
				n.store[k] = ex.iteValue(c, base, vb)
			} else {
				n.store[k] = vb
			}
		}
	}
	for _, pl := range ex.pendingLocs {
		n.store[pl.l] = pl.v
	}
	ex.pendingLocs = nil
	return n
}

func (ex *Exec) mergeExits(xs []Exit, label string, keep *[]Exit) *State {
	var r *State
	for _, x := range xs {
		if x.Label == "" || x.Label == label {
			r = ex.mergeStates(r, x.St)
		} else {
			*keep = append(*keep, x)
		}
	}
	return r
}

// ---- locations and paths ----

func (ex *Exec) getPath(v Value, path []PathElem, st *State, p token.Pos) Value {
	for _, pe := range path {
		switch x := v.(type) {
		case *StructV:
			v = x.Fields[pe.Idx]
		case *ArrayV:
			if pe.Sym != nil {
				v = ex.selectArray(x, pe.Sym)
			} else {
				v = x.Elems[pe.Idx]
			}
		case *UFArrayV:
			idx := pe.Sym
			if idx == nil {
				idx = ex.ts.BV(uint64(pe.Idx), 64)
			}
			v = ex.ufIndex(x, idx)
		default:
			unsupported("path into %T", v)
		}
	}
	return v
}

func (ex *Exec) ufIndex(x *UFArrayV, idx *Term) Value {
	pre := append(append([]*Term(nil), x.Prefix...), idx)
	if len(pre) == len(x.Dims) {
		s, _ := scalarSort(x.Elem)
		return ex.ts.App(x.Fn, s, pre...)
	}
	return &UFArrayV{Fn: x.Fn, Prefix: pre, Dims: x.Dims, Elem: x.Elem}
}

// selectArray reads a[idx] for a symbolic idx (BV64) as an ite chain.
func (ex *Exec) selectArray(a *ArrayV, idx *Term) Value {
	if idx.Op == OpConst {
		return a.Elems[int(idx.BV)]
	}
	n := len(a.Elems)
	if n == 0 {
		unsupported("index into empty array")
	}
	r := a.Elems[n-1]
	for i := n - 2; i >= 0; i-- {
		r = ex.iteValue(ex.ts.Eq(idx, ex.ts.BV(uint64(i), 64)), a.Elems[i], r)
	}
	return r
}

func (ex *Exec) setPath(v Value, path []PathElem, nv Value) Value {
	if len(path) == 0 {
		return nv
	}
	pe := path[0]
	switch x := v.(type) {
	case *StructV:
		r := &StructV{Fields: append([]Value(nil), x.Fields...)}
		r.Fields[pe.Idx] = ex.setPath(x.Fields[pe.Idx], path[1:], nv)
		return r
	case *ArrayV:
		r := &ArrayV{Elems: append([]Value(nil), x.Elems...)}
		if pe.Sym == nil {
			r.Elems[pe.Idx] = ex.setPath(x.Elems[pe.Idx], path[1:], nv)
		} else {
			for i := range r.Elems {
				upd := ex.setPath(x.Elems[i], path[1:], nv)
				r.Elems[i] = ex.iteValue(ex.ts.Eq(pe.Sym, ex.ts.BV(uint64(i), 64)), upd, x.Elems[i])
			}
		}
		return r
	}
	unsupported("store into %T", v)
	return nil
}

type LV struct {
	Loc  *Loc
	Path []PathElem
	Map  *mapLV
	Heap *heapLV
}

func (ex *Exec) loadLV(st *State, lv LV, p token.Pos) Value {
	if lv.Map != nil {
		return ex.mapLoad(st, lv.Map)
	}
	if lv.Heap != nil {
		v := ex.heapLoadField(st, &HeapRefV{Ref: lv.Heap.Ref, Cls: lv.Heap.Cls}, lv.Heap.Field, p)
		return ex.getPath(v, lv.Path, st, p)
	}
	return ex.getPath(ex.load(st, lv.Loc), lv.Path, st, p)
}

func (ex *Exec) storeLV(st *State, lv LV, v Value) {
	if lv.Map != nil {
		ex.mapStore(st, lv.Map, v)
		return
	}
	if lv.Heap != nil {
		r := &HeapRefV{Ref: lv.Heap.Ref, Cls: lv.Heap.Cls}
		if len(lv.Path) > 0 {
			cur := ex.heapLoadField(st, r, lv.Heap.Field, token.NoPos)
			v = ex.setPath(cur, lv.Path, v)
		}
		ex.heapStoreField(st, r, lv.Heap.Field, v, token.NoPos)
		return
	}
	if len(lv.Path) == 0 {
		st.store[lv.Loc] = v
		return
	}
	st.store[lv.Loc] = ex.setPath(ex.load(st, lv.Loc), lv.Path, v)
}

// declare creates a fresh location for a variable in the current frame.
func (ex *Exec) declare(st *State, obj types.Object, v Value) *Loc {
	f := ex.cur()
	l := ex.newLoc(obj.Name(), obj.Type())
	f.env.vars[obj] = l
	st.store[l] = v
	if n := len(f.decl); n > 0 {
		f.decl[n-1] = append(f.decl[n-1], l)
	}
	return l
}

func (ex *Exec) pushScope() { f := ex.cur(); f.decl = append(f.decl, nil) }

// popScope forgets block-local variables whose address never escaped.
func (ex *Exec) popScope(states ...*State) {
	f := ex.cur()
	n := len(f.decl)
	locs := f.decl[n-1]
	f.decl = f.decl[:n-1]
	for _, l := range locs {
		if ex.escaped[l] {
			continue
		}
		for _, st := range states {
			if st != nil {
				delete(st.store, l)
			}
		}
	}
}

func (ex *Exec) flowStates(fl *Flow) []*State {
	var out []*State
	if fl.Normal != nil {
		out = append(out, fl.Normal)
	}
	for _, x := range fl.Breaks {
		out = append(out, x.St)
	}
	for _, x := range fl.Conts {
		out = append(out, x.St)
	}
	for _, r := range fl.Returns {
		out = append(out, r.St)
	}
	return out
}

// feasible asks the solver whether the path condition of st can hold at all.
func (ex *Exec) feasible(st *State) bool {
	if st.pc.IsFalse() {
		return false
	}
	if st.pc.IsTrue() {
		return true
	}
	if ex.feasCache == nil {
		ex.feasCache = map[*Term]bool{}
	}
	if v, ok := ex.feasCache[st.pc]; ok {
		return v
	}
	asserts := append(append([]*Term(nil), ex.facts...), st.pc)
	sr := Solve(ex.ts.SMTScript(asserts, nil, ""), 10*time.Second, []string{"z3-new"})
	r := sr.Status != "unsat"
	ex.feasCache[st.pc] = r
	return r
}

// mergeRet merges two return paths (state + result values); an infeasible path is dropped.
func (ex *Exec) mergeRet(a *State, va []Value, b *State, vb []Value) (rs *State, rv []Value) {
	defer func() {
		if r := recover(); r != nil {
			u, ok := r.(*unsupportedErr)
			if !ok || !strings.HasPrefix(u.msg, "merge of") {
				panic(r)
			}
			ex.pendingLocs = nil
			if !ex.feasible(a) {
				rs, rv = b, vb
				return
			}
			if !ex.feasible(b) {
				rs, rv = a, va
				return
			}
			panic(r)
		}
	}()
	ex.curMergeA, ex.curMergeB = a, b
	out := make([]Value, len(va))
	sel := ex.selector(a, b)
	for k := range va {
		out[k] = ex.iteValue(sel, va[k], vb[k])
	}
	pend := ex.pendingLocs
	ex.pendingLocs = nil
	st := ex.mergeStates(a, b)
	for _, pl := range pend {
		st.store[pl.l] = pl.v
	}
	return st, out
}

// checkNil emits the nil-dereference obligation for p; false means p is definitely nil
// (the path is then dead).
func (ex *Exec) checkNil(st *State, p *PtrV, pos token.Pos) bool {
	if p.Nil {
		ex.assert(st, "safety.nil", ex.ts.False(), pos, "nil dereference")
		st.pc = ex.ts.False()
		return false
	}
	if p.NilIf != nil && !p.NilIf.IsFalse() {
		ok := ex.ts.Not(p.NilIf)
		if conjunctOf(st.pc, ok, 64) {
			return true
		}
		ex.assert(st, "safety.nil", ok, pos, "nil dereference")
		st.pc = ex.ts.And(st.pc, ok)
	}
	return true
}

// conjunctOf reports whether t occurs as a conjunct of pc (syntactically).
func conjunctOf(pc, t *Term, budget int) bool {
	if pc == t {
		return true
	}
	if budget <= 0 || pc.Op != OpAnd {
		return false
	}
	return conjunctOf(pc.Args[1], t, budget-1) || conjunctOf(pc.Args[0], t, budget-1)
}

// selector returns a condition that tells path a from path b (they are exclusive): the part
// of a's path condition that is not shared with b. If b's distinguishing part is the plain
// negation of a single condition, that condition is used directly.
func (ex *Exec) selector(a, b *State) *Term {
	_, ra, rb, ok := ex.ts.SplitPC(a.pc, b.pc)
	if !ok {
		return a.pc
	}
	if ra.IsTrue() {
		// a is the prefix itself: a is selected when b's extra conditions fail
		return ex.ts.Not(rb)
	}
	return ra
}

func (ex *Exec) cover(st *State, name string) {
	if ex.suppress > 0 || st == nil {
		return
	}
	ex.covers = append(ex.covers, &Cover{Name: ex.target + "#cover." + name, NFacts: len(ex.facts), PC: st.pc})
}
