package main

import (
	"bytes"
	"context"
	"fmt"
	"os"
	"os/exec"
	"path/filepath"
	"regexp"
	"strings"
	"sync"
	"time"
)

type SolverResult struct {
	Status  string // unsat sat unknown timeout error
	Solver  string
	Seconds float64
	Model   map[string]string
	Raw     string
}

type solverSpec struct {
	name string
	args []string
	pre  string
}

var solverSpecs = []solverSpec{
	{"z3-new", []string{"z3-new", "-smt2", "-in"}, ""},
	{"z3", []string{"z3", "-smt2", "-in"}, ""},
	{"cvc5", []string{"cvc5", "--lang=smt2", "--produce-models", "--fp-exp"}, "(set-logic ALL)\n"},
}

var solverSem = make(chan struct{}, 16)

func runOne(ctx context.Context, sp solverSpec, script string) *SolverResult {
	solverSem <- struct{}{}
	defer func() { <-solverSem }()
	start := time.Now()
	cmd := exec.CommandContext(ctx, sp.args[0], sp.args[1:]...)
	cmd.Stdin = strings.NewReader(sp.pre + script)
	var out bytes.Buffer
	cmd.Stdout = &out
	cmd.Stderr = &out
	err := cmd.Run()
	res := &SolverResult{Solver: sp.name, Seconds: time.Since(start).Seconds(), Raw: out.String()}
	first := strings.TrimSpace(strings.SplitN(out.String(), "\n", 2)[0])
	switch first {
	case "unsat", "sat", "unknown":
		res.Status = first
	default:
		if ctx.Err() != nil {
			res.Status = "timeout"
		} else {
			res.Status = "error"
			_ = err
		}
	}
	if res.Status == "sat" {
		res.Model = parseModel(out.String())
	}
	return res
}

var modelRe = regexp.MustCompile(`\(\s*(\|[^|]*\||[^\s()]+)\s+(#[xb][0-9a-fA-F]+|true|false|\(_ bv\d+ \d+\)|\(fp [^)]*\)|\(_ [+-]?(?:oo|zero|NaN) \d+ \d+\)|\(- \d+\)|\d+)\s*\)`)

func parseModel(out string) map[string]string {
	m := map[string]string{}
	idx := strings.Index(out, "\n")
	if idx < 0 {
		return m
	}
	for _, mm := range modelRe.FindAllStringSubmatch(out[idx:], -1) {
		m[strings.Trim(mm[1], "|")] = mm[2]
	}
	return m
}

// Solve races the installed solvers on one script; the first definitive answer wins.
func Solve(script string, timeout time.Duration, which []string) *SolverResult {
	ctx, cancel := context.WithTimeout(context.Background(), timeout)
	defer cancel()
	ch := make(chan *SolverResult, len(solverSpecs))
	n := 0
	for _, sp := range solverSpecs {
		use := len(which) == 0
		for _, w := range which {
			if w == sp.name {
				use = true
			}
		}
		if !use {
			continue
		}
		n++
		go func(sp solverSpec) { ch <- runOne(ctx, sp, script) }(sp)
	}
	var last *SolverResult
	total := 0.0
	for i := 0; i < n; i++ {
		r := <-ch
		total += r.Seconds
		if r.Status == "unsat" || r.Status == "sat" {
			cancel()
			return r
		}
		if last == nil || (last.Status == "error" && r.Status != "error") || r.Status == "timeout" {
			last = r
		}
	}
	if last == nil {
		last = &SolverResult{Status: "error"}
	}
	return last
}

type OblResult struct {
	Obl     *Obligation
	Status  string // proved | failed | undecided | trivial
	Solver  string
	Seconds float64
	Model   map[string]string
	Size    int
	Script  string
	Raw     string
}

// Discharge checks all obligations of one executor run.
func (ex *Exec) Discharge(timeout time.Duration, keepScripts string) []*OblResult {
	ts := ex.ts
	results := make([]*OblResult, len(ex.obls))
	type job struct {
		i      int
		script string
	}
	var jobs []job
	var inputs []*Term
	for _, in := range ex.inputs {
		if in.Term != nil {
			inputs = append(inputs, in.Term)
		}
	}
	for i, o := range ex.obls {
		r := &OblResult{Obl: o}
		results[i] = r
		if o.Goal.IsTrue() || o.PC.IsFalse() {
			r.Status = "trivial"
			continue
		}
		asserts := append([]*Term(nil), ex.facts[:o.NFacts]...)
		asserts = append(asserts, o.PC, ts.Not(o.Goal))
		// keep only model inputs that occur
		occ := map[*Term]bool{}
		for _, v := range ts.Vars(asserts...) {
			occ[v] = true
		}
		var gm []*Term
		for _, in := range inputs {
			if occ[in] {
				gm = append(gm, in)
			}
		}
		r.Size = ts.Size(asserts...)
		script := "(set-option :produce-models true)\n" + ts.SMTScript(asserts, gm, "")
		r.Script = script
		jobs = append(jobs, job{i, script})
	}
	var wg sync.WaitGroup
	for _, j := range jobs {
		wg.Add(1)
		go func(j job) {
			defer wg.Done()
			sr := Solve(j.script, timeout, nil)
			r := results[j.i]
			r.Solver, r.Seconds, r.Raw = sr.Solver, sr.Seconds, sr.Raw
			switch sr.Status {
			case "unsat":
				r.Status = "proved"
			case "sat":
				r.Status = "failed"
				r.Model = sr.Model
			default:
				r.Status = "undecided:" + sr.Status
			}
			if keepScripts != "" && r.Status != "proved" {
				os.MkdirAll(keepScripts, 0o755)
				os.WriteFile(filepath.Join(keepScripts, sanitize(r.Obl.Name)+".smt2"), []byte(j.script), 0o644)
			}
		}(j)
	}
	wg.Wait()
	return results
}

func (r *OblResult) String() string {
	return fmt.Sprintf("%-9s %s [%s %.2fs size=%d] %s %s", r.Status, r.Obl.Name, r.Solver, r.Seconds, r.Size, r.Obl.Pos, r.Obl.Note)
}
