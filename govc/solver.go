package main

import (
	"bytes"
	"context"
	"fmt"
	"os"
	"os/exec"
	"path/filepath"
	"regexp"
	"strings"
	"sync"
	"time"
)

type SolverResult struct {
	Status  string // unsat sat unknown timeout error
	Solver  string
	Seconds float64
	Model   map[string]string
	Raw     string
}

type solverSpec struct {
	name string
	args []string
	pre  string
}

var solverSpecs = []solverSpec{
	{"z3-new", []string{"z3-new", "-smt2", "-in"}, ""},
	{"z3", []string{"z3", "-smt2", "-in"}, ""},
	{"cvc5", []string{"cvc5", "--lang=smt2", "--produce-models", "--fp-exp"}, "(set-logic ALL)\n"},
}

var solverSem = make(chan struct{}, 16)

func runOne(pctx context.Context, sp solverSpec, script string, timeout time.Duration) *SolverResult {
	select {
	case solverSem <- struct{}{}:
	case <-pctx.Done():
		return &SolverResult{Status: "timeout", Solver: sp.name}
	}
	defer func() { <-solverSem }()
	// The budget is CPU time of the solver process (ulimit -t), so that a loaded machine (other
	// checks running beside this one) does not turn a proof into a timeout; wall-clock time is
	// only a generous backstop.
	cpu := int(timeout.Seconds() + 0.999)
	if cpu < 1 {
		cpu = 1
	}
	ctx, cancel := context.WithTimeout(pctx, 12*timeout+30*time.Second)
	defer cancel()
	start := time.Now()
	cmd := exec.CommandContext(ctx, "sh", "-c", fmt.Sprintf("ulimit -t %d; exec \"$@\"", cpu), "sh")
	cmd.Args = append(cmd.Args, sp.args...)
	cmd.Stdin = strings.NewReader(sp.pre + script)
	var out bytes.Buffer
	cmd.Stdout = &out
	cmd.Stderr = &out
	err := cmd.Run()
	res := &SolverResult{Solver: sp.name, Seconds: time.Since(start).Seconds(), Raw: out.String()}
	first := strings.TrimSpace(strings.SplitN(out.String(), "\n", 2)[0])
	switch first {
	case "unsat", "sat", "unknown":
		res.Status = first
	default:
		cpuOut := false
		if ee, ok := err.(*exec.ExitError); ok && ee.ProcessState != nil {
			used := ee.ProcessState.UserTime() + ee.ProcessState.SystemTime()
			cpuOut = used >= time.Duration(cpu)*time.Second-500*time.Millisecond
		}
		if ctx.Err() != nil || cpuOut {
			res.Status = "timeout"
		} else {
			res.Status = "error"
			_ = err
		}
	}
	if res.Status == "sat" {
		res.Model = parseModel(out.String())
	}
	return res
}

var modelRe = regexp.MustCompile(`\(\s*(\|[^|]*\||[^\s()]+)\s+(#[xb][0-9a-fA-F]+|true|false|\(_ bv\d+ \d+\)|\(fp [^)]*\)|\(_ [+-]?(?:oo|zero|NaN) \d+ \d+\)|\(- \d+\)|\d+)\s*\)`)

func parseModel(out string) map[string]string {
	m := map[string]string{}
	idx := strings.Index(out, "\n")
	if idx < 0 {
		return m
	}
	for _, mm := range modelRe.FindAllStringSubmatch(out[idx:], -1) {
		m[strings.Trim(mm[1], "|")] = mm[2]
	}
	return m
}

// Solve races the installed solvers on one script; the first definitive answer wins.
func Solve(script string, timeout time.Duration, which []string) *SolverResult {
	return SolveCtx(context.Background(), script, timeout, which)
}

func SolveCtx(pctx context.Context, script string, timeout time.Duration, which []string) *SolverResult {
	ctx, cancel := context.WithCancel(pctx)
	defer cancel()
	ch := make(chan *SolverResult, len(solverSpecs))
	n := 0
	for _, sp := range solverSpecs {
		use := len(which) == 0
		for _, w := range which {
			if w == sp.name {
				use = true
			}
		}
		if !use {
			continue
		}
		delay := time.Duration(0)
		switch n {
		case 1:
			delay = 1500 * time.Millisecond
		case 2:
			delay = 4 * time.Second
		}
		n++
		go func(sp solverSpec, delay time.Duration) {
			// staged race: the later solvers only start if the first has not answered yet
			select {
			case <-time.After(delay):
			case <-ctx.Done():
				ch <- &SolverResult{Status: "timeout", Solver: sp.name}
				return
			}
			ch <- runOne(ctx, sp, script, timeout)
		}(sp, delay)
	}
	var last *SolverResult
	total := 0.0
	for i := 0; i < n; i++ {
		r := <-ch
		total += r.Seconds
		if r.Status == "unsat" || r.Status == "sat" {
			cancel()
			return r
		}
		if last == nil || (last.Status == "error" && r.Status != "error") || r.Status == "timeout" {
			last = r
		}
	}
	if last == nil {
		last = &SolverResult{Status: "error"}
	}
	return last
}

type OblResult struct {
	Obl     *Obligation
	Status  string // proved | failed | undecided | trivial
	Solver  string
	Seconds float64
	Model   map[string]string
	Size    int
	Script  string
	Raw     string
}

// Discharge checks all obligations of one executor run.
func (ex *Exec) Discharge(timeout time.Duration, keepScripts string) []*OblResult {
	ts := ex.ts
	results := make([]*OblResult, len(ex.obls))
	type job struct {
		i      int
		script string
		sk     string // skolemised goal with the hypotheses instantiated at the skolem constants (quantifier-free)
	}
	var jobs []job
	var inputs []*Term
	for _, in := range ex.inputs {
		if in.Term != nil && in.Term.Sort.Kind != SArray {
			inputs = append(inputs, in.Term)
		}
	}
	for i, o := range ex.obls {
		r := &OblResult{Obl: o}
		results[i] = r
		if o.Goal.IsTrue() || o.PC.IsFalse() {
			r.Status = "trivial"
			continue
		}
		asserts := append([]*Term(nil), ex.facts[:o.NFacts]...)
		asserts = append(asserts, o.PC, ts.Not(o.Goal))
		// keep only model inputs that occur
		occ := map[*Term]bool{}
		for _, v := range ts.Vars(asserts...) {
			occ[v] = true
		}
		var gm []*Term
		for _, in := range inputs {
			if occ[in] {
				gm = append(gm, in)
			}
		}
		r.Size = ts.Size(asserts...)
		script := "(set-option :produce-models true)\n" + ts.SMTScript(asserts, gm, "")
		r.Script = script
		if d := os.Getenv("GOVC_DUMP"); d != "" && strings.Contains(o.Name, d) {
			os.MkdirAll("/tmp/govc-dump", 0o755)
			os.WriteFile(filepath.Join("/tmp/govc-dump", sanitize(o.Name)+".smt2"), []byte(script), 0o644)
		}
		sk := ex.skolemScript(o)
		if d := os.Getenv("GOVC_DUMP"); d != "" && strings.Contains(o.Name, d) && sk != "" {
			os.WriteFile(filepath.Join("/tmp/govc-dump", sanitize(o.Name)+".sk.smt2"), []byte(sk), 0o644)
		}
		jobs = append(jobs, job{i, script, sk})
	}
	var wg sync.WaitGroup
	for _, j := range jobs {
		wg.Add(1)
		go func(j job) {
			defer wg.Done()
			r := results[j.i]
			o := r.Obl
			// staged: many obligations follow from the goal alone or from the path condition alone;
			// fewer assumptions is always sound for an unsat answer.
			quick := 4 * time.Second
			if timeout < quick {
				quick = timeout
			}
			// goal-only validity is shared by every obligation with the same goal term
			ex.smtMu.Lock()
			gv, seen := ex.goalValid[o.Goal]
			ex.smtMu.Unlock()
			if !seen {
				sg := ts.SMTScriptLocked(&ex.smtMu, []*Term{ts.Not(o.Goal)}, nil)
				sr := Solve(sg, quick, []string{"z3-new"})
				gv = sr.Status == "unsat"
				ex.smtMu.Lock()
				ex.goalValid[o.Goal] = gv
				ex.smtMu.Unlock()
				r.Seconds += sr.Seconds
			}
			if gv {
				r.Status, r.Solver = "proved", "z3-new(goal-only)"
				return
			}
			if o.NFacts > 0 {
				s0 := ts.SMTScriptLocked(&ex.smtMu, []*Term{o.PC, ts.Not(o.Goal)}, nil)
				if sr := Solve(s0, quick, []string{"z3-new"}); sr.Status == "unsat" {
					r.Status, r.Solver, r.Seconds = "proved", sr.Solver+"(pc-only)", sr.Seconds
					return
				} else {
					r.Seconds += sr.Seconds
				}
			}
			// quantified hypotheses push the solvers off their bit-vector fast path: first try without them
			if ex.factsHaveQuant(o) {
				var qf []*Term
				for _, f := range ex.facts[:o.NFacts] {
					if !ts.HasQuant(f) {
						qf = append(qf, f)
					}
				}
				if !ts.HasQuant(o.PC) && !ts.HasQuant(o.Goal) {
					qf = append(qf, o.PC, ts.Not(o.Goal))
					s1 := ts.SMTScriptLocked(&ex.smtMu, qf, nil)
					if sr := Solve(s1, timeout/2, nil); sr.Status == "unsat" {
						r.Status, r.Solver = "proved", sr.Solver+"(quantifier-free part)"
						r.Seconds += sr.Seconds
						return
					} else {
						r.Seconds += sr.Seconds
					}
				}
			}
			if j.sk != "" {
				// universally quantified goal: a fresh constant for the bound variable and the
				// instances of the quantified hypotheses at it often suffice, and the query is
				// quantifier-free (bit-vector fast path)
				if sr := Solve(j.sk, timeout/2, nil); sr.Status == "unsat" {
					r.Status, r.Solver = "proved", sr.Solver+"(skolem instances)"
					r.Seconds += sr.Seconds
					return
				} else {
					r.Seconds += sr.Seconds
				}
			}
			var sr *SolverResult
			if fs := ex.focusScript(o); fs != "" {
				// race the full query against one without the quantified hypotheses of the
				// other invariant clauses (fewer assumptions: an unsat answer is still sound)
				type res struct {
					sr    *SolverResult
					focus bool
				}
				ch := make(chan res, 2)
				ctx, cancel := context.WithCancel(context.Background())
				go func() { ch <- res{SolveCtx(ctx, fs, timeout, nil), true} }()
				go func() { ch <- res{SolveCtx(ctx, j.script, timeout, nil), false} }()
				for k := 0; k < 2 && sr == nil; k++ {
					x := <-ch
					switch {
					case x.sr.Status == "unsat" && x.focus:
						sr = x.sr
						sr.Solver += "(focused)"
					case !x.focus:
						sr = x.sr
					}
				}
				cancel()
			} else {
				sr = Solve(j.script, timeout, nil)
			}
			r.Solver, r.Raw = sr.Solver, sr.Raw
			r.Seconds += sr.Seconds
			switch sr.Status {
			case "unsat":
				r.Status = "proved"
			case "sat":
				r.Status = "failed"
				r.Model = sr.Model
			default:
				r.Status = "undecided:" + sr.Status
			}
			if keepScripts != "" && r.Status != "proved" {
				os.MkdirAll(keepScripts, 0o755)
				os.WriteFile(filepath.Join(keepScripts, sanitize(r.Obl.Name)+".smt2"), []byte(j.script), 0o644)
			}
		}(j)
	}
	wg.Wait()
	return results
}

// skolemScript: for a goal forall x. body, the query {quantifier-free facts, instances of the
// quantified facts at a fresh constant c, not body[c]}. Dropping and instantiating hypotheses
// is sound for an unsat answer. Built sequentially (it creates terms).
func (ex *Exec) skolemScript(o *Obligation) string {
	ts := ex.ts
	g := o.Goal
	var consts []*Term
	for g.Op == OpForall && len(consts) < 4 {
		c := ts.Fresh("sk."+g.Args[0].Name, g.Args[0].Sort)
		consts = append(consts, c)
		g = ts.Subst(g.Args[1], g.Args[0], c)
	}
	if len(consts) == 0 || ts.HasQuant(g) {
		return ""
	}
	var asserts []*Term
	cands := append([]*Term(nil), consts...)
	var addInst func(f *Term)
	addInst = func(f *Term) {
		if !ts.HasQuant(f) {
			asserts = append(asserts, f)
			return
		}
		if f.Op == OpAnd {
			addInst(f.Args[0])
			addInst(f.Args[1])
			return
		}
		work := []*Term{f}
		for round := 0; round < 2; round++ {
			var next []*Term
			for _, w := range work {
				for _, c := range cands {
					for _, inst := range ts.Instances(w, c) {
						if ts.HasQuant(inst) {
							next = append(next, inst)
						} else {
							asserts = append(asserts, inst)
						}
					}
				}
			}
			work = next
		}
	}
	collect := func() {
		for _, f := range ex.facts[:o.NFacts] {
			addInst(f)
		}
		addInst(o.PC)
	}
	collect()
	// second pass: also instantiate at the index terms the first pass brought up (one round of
	// matching on array reads by hand), e.g. i-entry for a segment invariant
	seenT := map[*Term]bool{}
	have := map[*Term]bool{}
	for _, c := range cands {
		have[c] = true
	}
	var extra []*Term
	var scan func(t *Term)
	scan = func(t *Term) {
		if seenT[t] {
			return
		}
		seenT[t] = true
		if t.Op == OpSelect && len(t.Args) == 2 {
			ix := t.Args[1]
			if ix.Sort.Kind == SBV && ix.Sort.W == 64 && !have[ix] && len(extra) < 12 {
				have[ix] = true
				extra = append(extra, ix)
			}
		}
		for _, a := range t.Args {
			scan(a)
		}
	}
	// the goal and the most recent facts first: they talk about the current loop
	scan(g)
	for k := len(asserts) - 1; k >= 0; k-- {
		scan(asserts[k])
	}
	if len(extra) > 0 {
		cands = append(cands, extra...)
		asserts = nil
		collect()
	}
	asserts = append(asserts, ts.Not(g))
	if len(asserts) > 30000 {
		return ""
	}
	return ts.SMTScript(asserts, nil, "")
}

// focusScript builds the reduced query for a loop-invariant obligation, or "" when it would
// not differ from the full one.
func (ex *Exec) focusScript(o *Obligation) string {
	if o.Focus == "" {
		return ""
	}
	ts := ex.ts
	var keep []*Term
	dropped := false
	ex.smtMu.Lock()
	for _, f := range ex.facts[:o.NFacts] {
		if tag := ex.factTag[f]; tag != "" && tag != o.Focus && ts.HasQuant(f) {
			dropped = true
			continue
		}
		keep = append(keep, f)
	}
	ex.smtMu.Unlock()
	if !dropped {
		return ""
	}
	keep = append(keep, o.PC, ts.Not(o.Goal))
	return ts.SMTScriptLocked(&ex.smtMu, keep, nil)
}

func (r *OblResult) String() string {
	return fmt.Sprintf("%-9s %s [%s %.2fs size=%d] %s %s", r.Status, r.Obl.Name, r.Solver, r.Seconds, r.Size, r.Obl.Pos, r.Obl.Note)
}

func (ex *Exec) factsHaveQuant(o *Obligation) bool {
	ex.smtMu.Lock()
	defer ex.smtMu.Unlock()
	if ex.quantFact == nil {
		ex.quantFact = map[*Term]bool{}
	}
	for _, f := range ex.facts[:o.NFacts] {
		q, ok := ex.quantFact[f]
		if !ok {
			q = ex.ts.HasQuant(f)
			ex.quantFact[f] = q
		}
		if q {
			return true
		}
	}
	return false
}
