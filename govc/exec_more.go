package main

// Features beyond plain value-typed code: loop invariants, maps, symbolic slices,
// heap classes, abstract interfaces. Parts that are not built yet report
// "unsupported" so that nothing is ever silently treated as proved.

import (
	"strings"
	"go/ast"
	"go/token"
	"go/types"
)

// SymSliceV is a slice of symbolic length whose elements are an uninterpreted function of the index.
type SymSliceV struct {
	Len  *Term   // BV64, >= 0 as a signed number
	Arrs []*Term // one array (index BV64) per scalar leaf of the element type
	Elem types.Type
}

func (ex *Exec) elemLeaves(t types.Type) []heapLeaf {
	var out []heapLeaf
	ex.flattenType(t, "e", &out)
	return out
}

func (ex *Exec) newSymSlice(st *State, prefix string, elem types.Type) *SymSliceV {
	ln := ex.ts.Fresh(prefix+".len", BVSort(64))
	ex.assume(st, ex.ts.BVCmp(OpBVSle, ex.ts.BV(0, 64), ln))
	sv := &SymSliceV{Len: ln, Elem: elem}
	for _, lf := range ex.elemLeaves(elem) {
		sv.Arrs = append(sv.Arrs, ex.ts.Fresh(prefix+"."+lf.name, ArraySort(refSort, lf.sort)))
	}
	return sv
}

// toSym converts a concrete-length slice into the array representation.
func (ex *Exec) toSym(st *State, v Value, elem types.Type) *SymSliceV {
	switch x := v.(type) {
	case *SymSliceV:
		return x
	case *SliceV:
		sv := &SymSliceV{Len: ex.ts.BV(uint64(x.Len), 64), Elem: elem}
		leaves := ex.elemLeaves(elem)
		for _, lf := range leaves {
			sv.Arrs = append(sv.Arrs, ex.ts.ConstArray(ArraySort(refSort, lf.sort), ex.zeroTerm(lf.sort)))
		}
		if x.Len > 0 {
			back := ex.load(st, x.Loc).(*ArrayV)
			for i := 0; i < x.Len; i++ {
				var ls []*Term
				ex.flattenValue(back.Elems[x.Off+i], st, &ls)
				for k := range sv.Arrs {
					sv.Arrs[k] = ex.ts.Store(sv.Arrs[k], ex.ts.BV(uint64(i), 64), ls[k])
				}
			}
		}
		return sv
	}
	unsupported("slice of kind %T", v)
	return nil
}


func (ex *Exec) mergeSym(c *Term, x, y *SymSliceV) Value {
	r := &SymSliceV{Len: ex.ts.Ite(c, x.Len, y.Len), Elem: x.Elem}
	for k := range x.Arrs {
		r.Arrs = append(r.Arrs, ex.ts.Ite(c, x.Arrs[k], y.Arrs[k]))
	}
	return r
}

func (ex *Exec) mergeSlices(c *Term, x, y *SliceV) Value {
	if x.Len != y.Len {
		a, b := ex.curMergeA, ex.curMergeB
		if a != nil && b != nil && (x.Loc != nil || y.Loc != nil) {
			var et types.Type
			if x.Loc != nil {
				et = x.Loc.Typ.(*types.Array).Elem()
			} else {
				et = y.Loc.Typ.(*types.Array).Elem()
			}
			return ex.mergeSym(c, ex.toSym(a, x, et), ex.toSym(b, y, et))
		}
		unsupported("merge of slices of different length")
	}
	if x.Len == 0 {
		return x
	}
	a, b := ex.curMergeA, ex.curMergeB
	if a == nil || b == nil {
		unsupported("merge of different slices")
	}
	xa := ex.load(a, x.Loc).(*ArrayV)
	ya := ex.load(b, y.Loc).(*ArrayV)
	elems := make([]Value, x.Len)
	for i := range elems {
		elems[i] = ex.iteValue(c, xa.Elems[x.Off+i], ya.Elems[y.Off+i])
	}
	l := ex.newLoc("merged", types.NewArray(x.Loc.Typ.(*types.Array).Elem(), int64(x.Len)))
	ex.escaped[l] = true
	ex.pendingLocs = append(ex.pendingLocs, pendingLoc{l, &ArrayV{Elems: elems}})
	return &SliceV{Loc: l, Len: x.Len, Cap: x.Len}
}

type pendingLoc struct {
	l *Loc
	v Value
}



func (ex *Exec) execRangeSym(s *ast.RangeStmt, st *State, label string, sv *SymSliceV) *Flow {
	_, invs, havoc, blk, rangevar := ex.loopClauses2(s)
	if len(invs) == 0 {
		unsupported("range over a slice of unknown length at %s needs a loop invariant", ex.pos(s.Pos()))
	}
	if rangevar != "" {
		// a ghost names the slice being ranged over (the range expression is evaluated once)
		gl := ex.ghostLoc(blk.Pkg, rangevar)
		if gl == nil {
			unsupported("rangevar %s: no such ghost (declare it with 'forall %s []T')", rangevar, rangevar)
		}
		st.store[gl] = sv
	}
	if s.Tok != token.DEFINE {
		unsupported("range with assignment over symbolic slice at %s", ex.pos(s.Pos()))
	}
	// key/value variables exist before the cut so invariants may mention them
	var kobj, vobj types.Object
	if id, ok := s.Key.(*ast.Ident); ok && id.Name != "_" {
		kobj = ex.info().Defs[id]
		ex.declare(st, kobj, ex.ts.BV(0, 64))
	}
	if s.Value != nil {
		if id, ok := s.Value.(*ast.Ident); ok && id.Name != "_" {
			vobj = ex.info().Defs[id]
			ex.declare(st, vobj, ex.zeroValue(vobj.Type()))
		}
	}
	// the hidden index counts 0..len-1 in order (rangeidx() in invariants); the slice header was
	// evaluated once, as in Go
	idxLoc := ex.newLoc("range.idx", types.Typ[types.Int])
	st.store[idxLoc] = ex.ts.BV(0, 64)
	ex.rangeIdx = append(ex.rangeIdx, idxLoc)
	defer func() { ex.rangeIdx = ex.rangeIdx[:len(ex.rangeIdx)-1] }()
	pre := func(bs *State) {
		k := ex.load(bs, idxLoc).(*Term)
		// instantiate the universally quantified facts at the index of this iteration
		nf := len(ex.facts)
		for _, f := range ex.facts[:nf] {
			for _, inst := range ex.ts.Instances(f, k) {
				ex.facts = append(ex.facts, inst)
			}
		}
		if kobj != nil {
			bs.store[ex.cur().env.Lookup(kobj)] = k
		}
		if vobj != nil {
			bs.store[ex.cur().env.Lookup(vobj)] = ex.symSliceElem(bs, sv, k)
		}
	}
	synth := &synthLoop{
		havoc: []*Loc{idxLoc},
		head: func(h *State) {
			k := ex.load(h, idxLoc).(*Term)
			ex.assume(h, ex.ts.And(ex.ts.BVCmp(OpBVSle, ex.ts.BV(0, 64), k), ex.ts.BVCmp(OpBVSle, k, sv.Len)))
		},
		cond: func(h *State) *Term {
			return ex.ts.BVCmp(OpBVSlt, ex.load(h, idxLoc).(*Term), sv.Len)
		},
		post: func(s2 *State) {
			s2.store[idxLoc] = ex.ts.BVBin(OpBVAdd, ex.load(s2, idxLoc).(*Term), ex.ts.BV(1, 64))
		},
	}
	return ex.execLoopInv(s, nil, s.Body, nil, st, label, invs, havoc, false, pre, synth)
}

// synthLoop describes the parts of a loop that have no syntax (the hidden index of a range).
type synthLoop struct {
	havoc []*Loc
	head  func(h *State)
	cond  func(h *State) *Term
	post  func(s *State)
}

func (ex *Exec) symSliceIndex(st *State, sv *SymSliceV, idx *Term, p token.Pos) Value {
	ok := ex.ts.BVCmp(OpBVUlt, idx, sv.Len)
	ex.assert(st, "safety.index", ok, p, "index below the slice length")
	return ex.symSliceElem(st, sv, idx)
}

func (ex *Exec) symSliceElem(st *State, sv *SymSliceV, idx *Term) Value {
	var leaves []*Term
	for _, a := range sv.Arrs {
		leaves = append(leaves, ex.ts.Select(a, idx))
	}
	pos := 0
	return ex.buildValue(sv.Elem, leaves, &pos, st)
}
// symSliceSlice: s[lo:hi] of a slice of unknown length: bounds are obligations, the length is
// exact, the contents of the result are left unconstrained (a sound weakening).
func (ex *Exec) symSliceSlice(st *State, sv *SymSliceV, e *ast.SliceExpr) Value {
	ts := ex.ts
	lo := ts.BV(0, 64)
	if e.Low != nil {
		lo = ex.indexTerm(e.Low, st)
	}
	hi := sv.Len
	if e.High != nil {
		hi = ex.indexTerm(e.High, st)
	}
	if e.Max != nil {
		unsupported("3-index slice of symbolic slice")
	}
	ok := ts.And(ts.BVCmp(OpBVSle, ts.BV(0, 64), lo), ts.And(ts.BVCmp(OpBVSle, lo, hi), ts.BVCmp(OpBVSle, hi, sv.Len)))
	ex.assert(st, "safety.slice", ok, e.Pos(), "slice bounds in range")
	r := ex.newSymSlice(st, "subslice", sv.Elem)
	ex.assume(st, ts.Eq(r.Len, ts.BVBin(OpBVSub, hi, lo)))
	ex.assumptions["contents of s[lo:hi] for s of unknown length are not modelled (only the length)"] = true
	return r
}
func (ex *Exec) makeSymSlice(st *State, t *types.Slice, n *Term, p token.Pos) Value {
	// make([]T, n) with n not a constant: n zero elements (make panics for a negative n)
	ex.assert(st, "safety.make", ex.ts.BVCmp(OpBVSle, ex.ts.BV(0, 64), n), p, "make with a non-negative length")
	sv := &SymSliceV{Len: n, Elem: t.Elem()}
	for _, lf := range ex.elemLeaves(t.Elem()) {
		sv.Arrs = append(sv.Arrs, ex.ts.ConstArray(ArraySort(refSort, lf.sort), ex.zeroTerm(lf.sort)))
	}
	return sv
}

// symElemStore: v[idx] = val for a local slice variable of unknown length. A slice of unknown
// length is a value here (length + contents), so the store is only modelled when the variable is
// not aliased: it must be used in its function only in v[i], len(v), range v, v = append(v, ..),
// v := make(..) and return v.
func (ex *Exec) symElemStore(st *State, e *ast.IndexExpr, val Value) bool {
	id, ok := ast.Unparen(e.X).(*ast.Ident)
	if !ok {
		return false
	}
	obj, ok := ex.objOf(id).(*types.Var)
	if !ok {
		return false
	}
	l := ex.cur().env.Lookup(obj)
	if l == nil {
		return false
	}
	sv, ok := ex.load(st, l).(*SymSliceV)
	if !ok {
		return false
	}
	if f := ex.cur().fi; f == nil || !unaliasedSliceVar(f.Decl.Body, obj, f.Pkg.TypesInfo) {
		unsupported("store into an element of slice variable %s of unknown length that may be aliased at %s", id.Name, ex.pos(e.Pos()))
	}
	idx := ex.indexTerm(e.Index, st)
	ex.assert(st, "safety.index", ex.ts.BVCmp(OpBVUlt, idx, sv.Len), e.Pos(), "index below the slice length")
	r := &SymSliceV{Len: sv.Len, Arrs: append([]*Term(nil), sv.Arrs...), Elem: sv.Elem}
	var ls []*Term
	ex.flattenValue(val, st, &ls)
	for k := range r.Arrs {
		r.Arrs[k] = ex.ts.Store(r.Arrs[k], idx, ls[k])
	}
	st.store[l] = r
	ex.assumptions["element stores into a slice of unknown length are modelled on the (syntactically unaliased) slice variable"] = true
	return true
}

func unaliasedSliceVar(body *ast.BlockStmt, obj *types.Var, info *types.Info) bool {
	ok := true
	allowed := map[*ast.Ident]bool{}
	ast.Inspect(body, func(n ast.Node) bool {
		switch x := n.(type) {
		case *ast.IndexExpr:
			if id, is := ast.Unparen(x.X).(*ast.Ident); is {
				allowed[id] = true
			}
		case *ast.CallExpr:
			if fn, is := ast.Unparen(x.Fun).(*ast.Ident); is && (fn.Name == "len" || fn.Name == "cap") && len(x.Args) == 1 {
				if id, is := ast.Unparen(x.Args[0]).(*ast.Ident); is {
					allowed[id] = true
				}
			}
		case *ast.RangeStmt:
			if id, is := ast.Unparen(x.X).(*ast.Ident); is {
				allowed[id] = true
			}
		case *ast.ReturnStmt:
			for _, r := range x.Results {
				if id, is := ast.Unparen(r).(*ast.Ident); is {
					allowed[id] = true
				}
			}
		case *ast.AssignStmt:
			// v := make(...), v = append(v, ...)
			if len(x.Lhs) == 1 && len(x.Rhs) == 1 {
				if id, is := x.Lhs[0].(*ast.Ident); is && info.ObjectOf(id) == obj {
					allowed[id] = true
					if call, is := x.Rhs[0].(*ast.CallExpr); is {
						if fn, is := call.Fun.(*ast.Ident); is && fn.Name == "append" && len(call.Args) > 0 {
							if a0, is := call.Args[0].(*ast.Ident); is {
								allowed[a0] = true
							}
						}
					}
				}
			}
		}
		return true
	})
	ast.Inspect(body, func(n ast.Node) bool {
		if id, is := n.(*ast.Ident); is && info.ObjectOf(id) == obj && !allowed[id] {
			ok = false
		}
		return ok
	})
	return ok
}
func (ex *Exec) symAppend(st *State, b *SymSliceV, add []Value, p token.Pos) Value {
	r := &SymSliceV{Len: b.Len, Arrs: append([]*Term(nil), b.Arrs...), Elem: b.Elem}
	for _, v := range add {
		var ls []*Term
		ex.flattenValue(v, st, &ls)
		for k := range r.Arrs {
			r.Arrs[k] = ex.ts.Store(r.Arrs[k], r.Len, ls[k])
		}
		r.Len = ex.ts.BVBin(OpBVAdd, r.Len, ex.ts.BV(1, 64))
	}
	ex.assumptions["slice lengths stay below 2^63 (append never overflows the length)"] = true
	return r
}
// symAppendSlice: append(base, s...) for a slice s of unknown length: the result has the summed
// length; its contents are left unconstrained (a sound weakening).
func (ex *Exec) symAppendSlice(st *State, base Value, s *SymSliceV, t *types.Slice, p token.Pos) Value {
	b := ex.toSym(st, base, t.Elem())
	r := ex.newSymSlice(st, "appended", t.Elem())
	ex.assume(st, ex.ts.Eq(r.Len, ex.ts.BVBin(OpBVAdd, b.Len, s.Len)))
	if b.Len.Op == OpConst {
		// the prefix of known length is copied element by element
		for i := uint64(0); i < b.Len.BV && i < 16; i++ {
			idx := ex.ts.BV(i, 64)
			for k := range r.Arrs {
				ex.assume(st, ex.ts.Eq(ex.ts.Select(r.Arrs[k], idx), ex.ts.Select(b.Arrs[k], idx)))
			}
		}
	}
	// the copied elements: r[len(a)+j] == b[j] for 0 <= j < len(b)
	j := ex.ts.Fresh("q.j", BVSort(64))
	in := ex.ts.And(ex.ts.BVCmp(OpBVSle, ex.ts.BV(0, 64), j), ex.ts.BVCmp(OpBVSlt, j, s.Len))
	eq := ex.ts.True()
	for k := range r.Arrs {
		eq = ex.ts.And(eq, ex.ts.Eq(ex.ts.Select(r.Arrs[k], ex.ts.BVBin(OpBVAdd, b.Len, j)), ex.ts.Select(s.Arrs[k], j)))
	}
	ex.assume(st, ex.ts.Forall(j, ex.ts.Implies(in, eq)))
	if b.Len.Op != OpConst || b.Len.BV > 16 {
		ex.assumptions["append(a, b...) with a of unknown length: length and the elements of b are modelled, the elements of a are not"] = true
	}
	return r
}
func (ex *Exec) havocSymSlice(st *State, prefix string, t *types.Slice) Value {
	return ex.newSymSlice(st, prefix, t.Elem())
}
func (ex *Exec) stringToSlice(st *State, sv *StrV, t *types.Slice, p token.Pos) Value {
	if sv.Concrete {
		if b, ok := t.Elem().Underlying().(*types.Basic); ok && (b.Kind() == types.Int32 || b.Kind() == types.Uint8) {
			var elems []Value
			if b.Kind() == types.Int32 {
				for _, r := range sv.S {
					elems = append(elems, ex.ts.BV(uint64(r), 32))
				}
			} else {
				for i := 0; i < len(sv.S); i++ {
					elems = append(elems, ex.ts.BV(uint64(sv.S[i]), 8))
				}
			}
			l := ex.newLoc("strslice", types.NewArray(t.Elem(), int64(len(elems))))
			ex.escaped[l] = true
			st.store[l] = &ArrayV{Elems: elems}
			return &SliceV{Loc: l, Len: len(elems), Cap: len(elems)}
		}
	}
	if b, ok := t.Elem().Underlying().(*types.Basic); ok && !sv.Concrete && (b.Kind() == types.Int32 || b.Kind() == types.Uint8) {
		// arbitrary text: arbitrary length, arbitrary elements
		ex.assumptions["[]rune(s)/[]byte(s) of an arbitrary string is an arbitrary slice (contents unconstrained; rune count <= byte count <= 4 * rune count)"] = true
		// the conversion is a function of the string: two conversions of the same text agree
		kind := "runes"
		if b.Kind() == types.Uint8 {
			kind = "bytes"
		}
		id := ex.strTerm(sv)
		sl := &SymSliceV{Len: ex.ts.App("dep."+kind+".len", BVSort(64), id), Elem: t.Elem()}
		ex.assume(st, ex.ts.BVCmp(OpBVSle, ex.ts.BV(0, 64), sl.Len))
		for _, lf := range ex.elemLeaves(t.Elem()) {
			sl.Arrs = append(sl.Arrs, ex.ts.App("dep."+kind+"."+lf.name, ArraySort(refSort, lf.sort), id))
		}
		bl := ex.strLen(sv)
		if b.Kind() == types.Uint8 {
			ex.assume(st, ex.ts.Eq(sl.Len, bl))
		} else {
			four := ex.ts.BVBin(OpBVMul, sl.Len, ex.ts.BV(4, 64))
			ex.assume(st, ex.ts.And(ex.ts.BVCmp(OpBVSle, sl.Len, bl), ex.ts.And(ex.ts.BVCmp(OpBVSle, bl, four), ex.ts.BVCmp(OpBVSlt, sl.Len, ex.ts.BV(1<<60, 64)))))
		}
		return sl
	}
	unsupported("conversion of symbolic string to slice at %s", ex.pos(p))
	return nil
}
// strLen: byte length of a symbolic string: an uninterpreted non-negative function of its identity.
func (ex *Exec) strLen(s *StrV) *Term {
	l := ex.ts.App("dep.strlen", BVSort(64), ex.strTerm(s))
	ex.facts = append(ex.facts, ex.ts.BVCmp(OpBVSle, ex.ts.BV(0, 64), l))
	return l
}

func (ex *Exec) callExternalMore(name string, f *FuncV, args []Value, st *State, site *ast.CallExpr) (Value, bool) {
	ts := ex.ts
	switch name {
	case "github.com/seekerror/stdlib/pkg/util/mathx.Max", "github.com/seekerror/stdlib/pkg/util/mathx.Min":
		// generic integer maximum / minimum of two values (documented meaning)
		// variadic: the arguments arrive as one slice of known length
		_, signed, isInt := intInfo(ex.typeOf(site))
		if !isInt || len(args) != 1 {
			return nil, false
		}
		sl, ok := args[0].(*SliceV)
		if !ok || sl.Nil || sl.Len == 0 {
			return nil, false
		}
		back := ex.load(st, sl.Loc).(*ArrayV)
		ex.assumptions["mathx.Max/Min on integers modelled by their documented meaning"] = true
		acc := back.Elems[sl.Off].(*Term)
		for i := 1; i < sl.Len; i++ {
			b := back.Elems[sl.Off+i].(*Term)
			lt := ts.BVCmp(OpBVUlt, acc, b)
			if signed {
				lt = ts.BVCmp(OpBVSlt, acc, b)
			}
			if strings.HasSuffix(name, ".Max") {
				acc = ts.Ite(lt, b, acc)
			} else {
				acc = ts.Ite(lt, acc, b)
			}
		}
		return acc, true
	case "sync/atomic.LoadPointer", "sync/atomic.CompareAndSwapPointer", "sync/atomic.StorePointer":
		// sequential meaning on the slice element the address denotes
		ea, ok := args[0].(*ElemAddrV)
		if !ok {
			unsupported("%s on %T", name, args[0])
		}
		ex.assumptions["sync/atomic pointer operations have their sequential meaning (one thread); interleavings are not explored"] = true
		sv, ok := ex.loadLV(st, ea.Owner, site.Pos()).(*SymSliceV)
		if !ok {
			unsupported("%s: the slice is not in (length, contents) form", name)
		}
		cur := ex.symSliceElem(st, sv, ea.Idx)
		store := func(nv Value, cond *Term) {
			r := &SymSliceV{Len: sv.Len, Arrs: append([]*Term(nil), sv.Arrs...), Elem: sv.Elem}
			var ls []*Term
			ex.flattenValue(nv, st, &ls)
			for k := range r.Arrs {
				r.Arrs[k] = ts.Ite(cond, ts.Store(r.Arrs[k], ea.Idx, ls[k]), r.Arrs[k])
			}
			ex.storeLV(st, ea.Owner, r)
		}
		switch name {
		case "sync/atomic.LoadPointer":
			return cur, true
		case "sync/atomic.StorePointer":
			store(args[1], ts.True())
			return nil, true
		default:
			eq := ex.eqValue(cur, args[1])
			store(args[2], eq)
			return eq, true
		}
	case "(*sync/atomic.Uint64).Add", "(*sync/atomic.Uint64).Load", "(*sync/atomic.Uint64).Store",
		"(*sync/atomic.Int64).Add", "(*sync/atomic.Int64).Load", "(*sync/atomic.Int64).Store":
		// the struct's value field, sequentially
		pv, ok := f.Recv.(*PtrV)
		if !ok {
			unsupported("%s on %T", name, f.Recv)
		}
		ex.assumptions["sync/atomic integer operations have their sequential meaning (one thread)"] = true
		stt := pv.Loc.Typ
		cur := ex.getPath(ex.load(st, pv.Loc), pv.Path, st, site.Pos())
		sv, ok := cur.(*StructV)
		if !ok {
			unsupported("%s: receiver is not a struct value", name)
		}
		_ = stt
		vi := len(sv.Fields) - 1 // the value is the last field of atomic.Uint64 / Int64
		val := sv.Fields[vi].(*Term)
		set := func(nv *Term) {
			nf := append([]Value(nil), sv.Fields...)
			nf[vi] = nv
			ex.storeLV(st, LV{Loc: pv.Loc, Path: pv.Path}, &StructV{Fields: nf})
		}
		switch {
		case strings.HasSuffix(name, ".Load"):
			return val, true
		case strings.HasSuffix(name, ".Store"):
			set(args[0].(*Term))
			return nil, true
		default:
			nv := ts.BVBin(OpBVAdd, val, args[0].(*Term))
			set(nv)
			return nv, true
		}
	case "strings.Split":
		ex.assumptions["strings.Split returns at least one string; nothing else is assumed about its result"] = true
		sv := ex.newSymSlice(st, "split", types.Typ[types.String])
		ex.assume(st, ts.BVCmp(OpBVSle, ts.BV(1, 64), sv.Len))
		return sv, true
	case "strconv.Atoi":
		ex.assumptions["strconv.Atoi returns an arbitrary int and an arbitrary error"] = true
		return &TupleV{Vals: []Value{ts.Fresh("atoi", BVSort(64)), &OpaqueV{What: "error", IsNil: ts.Fresh("atoi.ok", BoolSort)}}}, true
	case "strconv.Itoa":
		return &StrV{T: ts.Fresh("itoa", IntSort)}, true
	case "unicode.ToUpper", "unicode.ToLower":
		r := args[0].(*Term)
		ex.assumptions["unicode.ToUpper/ToLower: exact on ASCII, uninterpreted elsewhere"] = true
		ascii := ts.BVCmp(OpBVUlt, r, ts.BV(128, 32))
		var lo, hi, delta uint64 = 'a', 'z', 0xffffffe0 // -32
		if name == "unicode.ToLower" {
			lo, hi, delta = 'A', 'Z', 32
		}
		inRange := ts.And(ts.BVCmp(OpBVSle, ts.BV(lo, 32), r), ts.BVCmp(OpBVSle, r, ts.BV(hi, 32)))
		return ts.Ite(ascii, ts.Ite(inRange, ts.BVBin(OpBVAdd, r, ts.BV(delta, 32)), r), ts.App("dep."+name, BVSort(32), r)), true
	case "strings.IndexRune", "strings.ContainsRune":
		sv, ok := args[0].(*StrV)
		if !ok || !sv.Concrete {
			return nil, false
		}
		r := args[1].(*Term)
		res := ts.BV(^uint64(0), 64)
		runes := []rune(sv.S)
		// first match wins: build from the back
		byteIdx := make([]int, len(runes))
		bi := 0
		for i, rr := range runes {
			byteIdx[i] = bi
			bi += len(string(rr))
		}
		for i := len(runes) - 1; i >= 0; i-- {
			res = ts.Ite(ts.Eq(r, ts.BV(uint64(runes[i]), 32)), ts.BV(uint64(byteIdx[i]), 64), res)
		}
		if name == "strings.ContainsRune" {
			return ts.Not(ts.Eq(res, ts.BV(^uint64(0), 64))), true
		}
		return res, true
	case "unicode.IsDigit", "unicode.IsLetter":
		// uninterpreted predicates on runes: only what the code checks afterwards matters
		ex.assumptions["unicode.IsDigit/IsLetter are uninterpreted predicates (non-ASCII digits and letters are not assumed away)"] = true
		return ts.App("dep."+name, BoolSort, args[0].(*Term)), true
	}
	return nil, false
}

// execLoopInv cuts a loop at its invariant: assert on entry, havoc the variables the
// body assigns, assume invariant and guard, run the body once, assert the invariant again.
func (ex *Exec) execLoopInv(s ast.Stmt, cond ast.Expr, body *ast.BlockStmt, post ast.Stmt, st *State, label string, invs []*Clause, havoc []string, nondet bool, pre func(bodySt *State), synth *synthLoop) *Flow {
	out := &Flow{}
	fi := ex.prog.LoopFunc[s]
	// type-check invariant expressions at a position inside the loop body
	var exprs, useExprs []ast.Expr
	var allClauses = invs
	invs = nil
	for _, c := range allClauses {
		e, err := ex.prog.CheckExprAt(fi.Pkg, body.Lbrace+1, c.Go)
		if err != nil {
			unsupported("loop clause %q does not type-check: %v", c.Text, err)
		}
		if c.Kind == "use" {
			useExprs = append(useExprs, e)
			if ex.prog.Axioms[lemmaKey(fi.Pkg.Name, c.ID)] {
				ex.assumptions["AXIOM "+fi.Pkg.Name+"."+c.ID+" (assumed, see the contract file)"] = true
			} else {
				ex.usedContracts["lemma "+lemmaKey(fi.Pkg.Name, c.ID)] = true
			}
			continue
		}
		invs = append(invs, c)
		exprs = append(exprs, e)
	}
	evalInv := func(s2 *State, kind string) {
		for i, e := range exprs {
			save := ex.curFocus
			ex.curFocus = "inv." + itoa(ex.prog.LoopOrd[s]) + "." + itoa(i)
			if kind == "loop.entry" {
				ex.curFocus += ".entry"
			}
			// one obligation per top-level conjunct of the clause
			for _, cj := range topConjuncts(e) {
				g := ex.evalBool(cj, s2)
				ex.assert(s2, kind+"."+itoa(ex.prog.LoopOrd[s])+"."+itoa(i), g, body.Lbrace, "invariant: "+invs[i].Text)
			}
			ex.curFocus = save
		}
	}
	saveEntry := ex.loopEntry
	ex.loopEntry = st.fork(st.pc)
	defer func() { ex.loopEntry = saveEntry }()
	evalInv(st, "loop.entry")
	// havoc assigned variables
	assigned := map[types.Object]bool{}
	ast.Inspect(body, func(n ast.Node) bool {
		switch a := n.(type) {
		case *ast.AssignStmt:
			for _, l := range a.Lhs {
				if id := ex.assignedVar(l); id != nil {
					if o := ex.objOf(id); o != nil {
						assigned[o] = true
					}
				}
			}
		case *ast.IncDecStmt:
			if id := ex.assignedVar(a.X); id != nil {
				if o := ex.objOf(id); o != nil {
					assigned[o] = true
				}
			}
		}
		return true
	})
	if post != nil {
		ast.Inspect(post, func(n ast.Node) bool {
			switch a := n.(type) {
			case *ast.AssignStmt:
				for _, l := range a.Lhs {
					if id := ex.assignedVar(l); id != nil {
						assigned[ex.objOf(id)] = true
					}
				}
			case *ast.IncDecStmt:
				if id := ex.assignedVar(a.X); id != nil {
					assigned[ex.objOf(id)] = true
				}
			}
			return true
		})
	}
	// Locations the loop may change: syntactically assigned variables plus everything a dry
	// run of the body writes (pointees changed through calls, heap arrays, ghost state).
	hset := map[*Loc]types.Type{}
	for o := range assigned {
		v, ok := o.(*types.Var)
		if !ok {
			continue
		}
		l := ex.cur().env.Lookup(v)
		if l == nil {
			continue // declared inside the body
		}
		if _, present := st.store[l]; !present {
			continue
		}
		if _, isPtr := st.store[l].(*PtrV); isPtr {
			unsupported("loop assigns the pointer variable %s (only heap-class references may be reassigned in a loop with an invariant)", v.Name())
		}
		hset[l] = v.Type()
	}
	for _, h := range havoc {
		found := false
		for env := ex.cur().env; env != nil && !found; env = env.parent {
			for o, l := range env.vars {
				if o.Name() == h {
					hset[l] = o.Type()
					found = true
				}
			}
		}
		if !found {
			unsupported("havoc: no variable %s in scope", h)
		}
	}
	if synth != nil {
		for _, l := range synth.havoc {
			hset[l] = l.Typ
		}
	}
	// tmpl[l]: the entry value of l with a mark at every leaf the body may change
	tmpl := map[*Loc]Value{}
	for l := range hset {
		tmpl[l] = &havocMark{}
	}
	mkHead := func() *State {
		h := st.fork(st.pc)
		for l, t := range hset {
			h.store[l] = ex.instantiateMarks(tmpl[l], ex.load(h, l), t, l.Name+"@loop", h)
		}
		return h
	}
	for round := 0; round < 4; round++ {
		probe := mkHead()
		before := map[*Loc]Value{}
		for l, v := range probe.store {
			before[l] = v
		}
		nf, no := len(ex.facts), len(ex.obls)
		saveCount := map[string]int{}
		for k, v := range ex.oblCount {
			saveCount[k] = v
		}
		ex.suppress++
		ps := probe.fork(probe.pc)
		if cond != nil {
			ex.evalBool(cond, ps)
		}
		if pre != nil {
			ex.pushScope()
			pre(ps)
		}
		fl := ex.execBlock(body.List, ps)
		if post != nil && fl.Normal != nil {
			ex.execStmt(post, fl.Normal)
		}
		if pre != nil {
			ex.popScope()
		}
		ex.suppress--
		ex.facts, ex.obls, ex.oblCount = ex.facts[:nf], ex.obls[:no], saveCount
		grew := false
		for _, s2 := range ex.flowStates(fl) {
			for l, v := range s2.store {
				old, had := before[l]
				if !had {
					old, had = ex.base[l]
				}
				if !had || old == v {
					continue // new location of the body, or unchanged
				}
				cur, in := tmpl[l]
				if !in {
					cur = old
					if ov, have := st.store[l]; have {
						cur = ov
					} else if bv, have := ex.base[l]; have {
						cur = bv
					}
					hset[l] = l.Typ
				}
				orig := cur
				if !in {
					orig = cur
				}
				nt := markChanges(cur, ex.entryOf(st, l), v)
				if !in || !sameMarks(nt, orig) {
					tmpl[l] = nt
					grew = true
				}
			}
		}
		if !grew {
			break
		}
	}
	head := mkHead()
	// assume invariant at loop head
	for i, e := range exprs {
		ex.suppress++
		g := ex.evalBool(e, head)
		ex.suppress--
		save := ex.curFocus
		ex.curFocus = "inv." + itoa(ex.prog.LoopOrd[s]) + "." + itoa(i)
		ex.assume(head, g)
		ex.curFocus = save
	}
	c := ex.ts.True()
	if cond != nil {
		c = ex.evalBool(cond, head)
	}
	if synth != nil {
		synth.head(head)
		c = synth.cond(head)
	}
	if nondet {
		// the loop may stop or continue at any head state (range over a symbolic slice)
		c = ex.ts.Fresh("continue", BoolSort)
	}
	exit := head.fork(ex.ts.And(head.pc, ex.ts.Not(c)))
	if len(useExprs) > 0 {
		// lemma instances at the (arbitrary) loop state, available to the body and after the
		// loop: evaluated under the head's path condition only, so that facts produced while
		// evaluating them (results of contract calls inside the statement) survive the exit
		bs := head.fork(head.pc)
		for _, e := range useExprs {
			ex.suppress++
			g := ex.evalBool(e, bs)
			ex.suppress--
			// an instance of a proved (or assumed) lemma is a fact on every path
			ex.facts = append(ex.facts, g)
		}
	}
	bodySt := head
	bodySt.pc = ex.ts.And(head.pc, c)
	if pre != nil {
		pre(bodySt)
	}
	r := ex.execBlock(body.List, bodySt)
	out.Returns = append(out.Returns, r.Returns...)
	var keepB, keepC []Exit
	if b := ex.mergeExits(r.Breaks, label, &keepB); b != nil {
		exit = ex.mergeStates(exit, b)
	}
	out.Breaks = append(out.Breaks, keepB...)
	next := ex.mergeStates(r.Normal, ex.mergeExits(r.Conts, label, &keepC))
	out.Conts = append(out.Conts, keepC...)
	if next != nil && post != nil {
		next = ex.execStmt(post, next).Normal
	}
	if next != nil && synth != nil {
		synth.post(next)
	}
	if next != nil {
		ex.cover(next, "loop."+itoa(ex.prog.LoopOrd[s])+".body-end")
		evalInv(next, "loop.preserved")
	}
	if exit != nil {
		ex.cover(exit, "loop."+itoa(ex.prog.LoopOrd[s])+".exit")
	}
	if exit != nil && exit.pc.IsFalse() {
		exit = nil
	}
	out.Normal = exit
	return out
}

// topConjuncts splits a && b && (c && d) into its conjuncts; quantified conjuncts only (splitting
// cheap scalar conjuncts would just multiply queries).
func topConjuncts(e ast.Expr) []ast.Expr {
	var out []ast.Expr
	var walk func(e ast.Expr)
	walk = func(e ast.Expr) {
		switch x := e.(type) {
		case *ast.ParenExpr:
			walk(x.X)
			return
		case *ast.BinaryExpr:
			if x.Op == token.LAND {
				walk(x.X)
				walk(x.Y)
				return
			}
		}
		out = append(out, e)
	}
	walk(e)
	quant := 0
	for _, c := range out {
		has := false
		ast.Inspect(c, func(n ast.Node) bool {
			if id, ok := n.(*ast.Ident); ok && (id.Name == "forallAll" || id.Name == "existsAll") {
				has = true
			}
			return !has
		})
		if has {
			quant++
		}
	}
	if quant < 2 {
		return []ast.Expr{e}
	}
	return out
}

func rootIdent(e ast.Expr) *ast.Ident {
	for {
		switch x := e.(type) {
		case *ast.Ident:
			return x
		case *ast.ParenExpr:
			e = x.X
		case *ast.SelectorExpr:
			e = x.X
		case *ast.IndexExpr:
			e = x.X
		case *ast.StarExpr:
			e = x.X
		default:
			return nil
		}
	}
}

// havocLike makes an arbitrary value with the same shape as v.
func (ex *Exec) havocLike(prefix string, v Value, t types.Type, st *State) Value {
	switch x := v.(type) {
	case *Term:
		return ex.ts.Fresh(prefix, x.Sort)
	case *StructV:
		// field by field, so that pointer fields keep their targets
		if stt, ok := t.Underlying().(*types.Struct); ok && stt.NumFields() == len(x.Fields) {
			r := &StructV{Fields: make([]Value, len(x.Fields))}
			for i := range x.Fields {
				r.Fields[i] = ex.havocLike(prefix+"."+stt.Field(i).Name(), x.Fields[i], stt.Field(i).Type(), st)
			}
			return r
		}
		return ex.havocValue(prefix, t, st)
	case *ArrayV:
		return ex.havocValue(prefix, t, st)
	case *FuncV:
		if x.AbstractID != nil {
			return &FuncV{AbstractID: ex.ts.Fresh(prefix, BVSort(64)), AbsType: x.AbsType}
		}
	case *OpaqueV:
		return &OpaqueV{What: x.What, IsNil: ex.ts.Fresh(prefix+".isnil", BoolSort)}
	case *OpaqueTokV:
		return &OpaqueTokV{ID: ex.ts.Fresh(prefix, BVSort(64))}
	case *PtrV:
		return x // the pointer itself is not reassigned by the body (assignments are havocked separately)
	case *AbstractIfaceV:
		return &AbstractIfaceV{ID: ex.ts.Fresh(prefix, BVSort(64)), Typ: x.Typ}
	case *SliceV, *SymSliceV:
		if sl, ok := t.Underlying().(*types.Slice); ok {
			return ex.newSymSlice(st, prefix, sl.Elem())
		}
	case *StrV:
		return &StrV{T: ex.ts.Fresh(prefix, IntSort)}
	case *HeapRefV:
		return &HeapRefV{Ref: ex.ts.Fresh(prefix, refSort), Cls: x.Cls}
	case *MapV:
		return &MapV{Val: ex.ts.Fresh(prefix, x.Val.Sort), T: x.T}
	}
	unsupported("havoc of %T (%s)", v, prefix)
	return nil
}

// havocMark marks a leaf (or a whole sub-value) that a loop body may change.
type havocMark struct{}

func (ex *Exec) entryOf(st *State, l *Loc) Value {
	if v, ok := st.store[l]; ok {
		return v
	}
	return ex.base[l]
}

// markChanges refines template t (entry value with marks): wherever the observed value nv
// differs from the entry value ev, the template gets a mark.
func markChanges(t Value, ev Value, nv Value) Value {
	if _, isMark := t.(*havocMark); isMark {
		return t
	}
	if ev == nv {
		return t
	}
	switch e := ev.(type) {
	case *StructV:
		n, ok1 := nv.(*StructV)
		tt, ok2 := t.(*StructV)
		if ok1 && ok2 && len(n.Fields) == len(e.Fields) {
			r := &StructV{Fields: make([]Value, len(e.Fields))}
			for i := range e.Fields {
				r.Fields[i] = markChanges(tt.Fields[i], e.Fields[i], n.Fields[i])
			}
			return r
		}
	case *PtrV:
		if n, ok := nv.(*PtrV); ok && ptrSame(e, n) && e.NilIf == n.NilIf {
			return t
		}
	case *SliceV:
		if n, ok := nv.(*SliceV); ok && *e == *n {
			return t
		}
	}
	return &havocMark{}
}

func sameMarks(a, b Value) bool {
	_, ma := a.(*havocMark)
	_, mb := b.(*havocMark)
	if ma || mb {
		return ma && mb
	}
	sa, ok1 := a.(*StructV)
	sb, ok2 := b.(*StructV)
	if ok1 && ok2 && len(sa.Fields) == len(sb.Fields) {
		for i := range sa.Fields {
			if !sameMarks(sa.Fields[i], sb.Fields[i]) {
				return false
			}
		}
	}
	return true
}

// instantiateMarks builds the loop-head value: arbitrary at marked places, the entry value elsewhere.
func (ex *Exec) instantiateMarks(t Value, entry Value, typ types.Type, prefix string, st *State) Value {
	if _, isMark := t.(*havocMark); isMark {
		return ex.havocLike(prefix, entry, typ, st)
	}
	if tt, ok := t.(*StructV); ok {
		if e, ok := entry.(*StructV); ok && typ != nil {
			if stt, ok := typ.Underlying().(*types.Struct); ok && stt.NumFields() == len(e.Fields) {
				r := &StructV{Fields: make([]Value, len(e.Fields))}
				for i := range e.Fields {
					r.Fields[i] = ex.instantiateMarks(tt.Fields[i], e.Fields[i], stt.Field(i).Type(), prefix+"."+stt.Field(i).Name(), st)
				}
				return r
			}
		}
	}
	return entry
}

// assignedVar: the variable whose own storage an assignment to e changes (nil when the store
// goes through a pointer, slice or map - those targets are found by the dry run).
func (ex *Exec) assignedVar(e ast.Expr) *ast.Ident {
	for {
		switch x := e.(type) {
		case *ast.Ident:
			return x
		case *ast.ParenExpr:
			e = x.X
		case *ast.SelectorExpr:
			if _, isPtr := ex.typeOf(x.X).Underlying().(*types.Pointer); isPtr {
				return nil
			}
			e = x.X
		case *ast.IndexExpr:
			if _, isArr := ex.typeOf(x.X).Underlying().(*types.Array); !isArr {
				return nil
			}
			e = x.X
		default:
			return nil
		}
	}
}
