package main

import (
	"go/ast"
	"go/constant"
	"go/token"
	"go/types"
	"math"
	"strconv"
)

func fmtInt(i int) string { return strconv.Itoa(i) }
func atoi(s string) int {
	n, err := strconv.Atoi(s)
	if err != nil {
		unsupported("bad integer %q", s)
	}
	return n
}

func (ex *Exec) constValue(cv constant.Value, t types.Type) Value {
	ts := ex.ts
	if w, signed, ok := intInfo(t); ok {
		cv = constant.ToInt(cv)
		if cv.Kind() != constant.Int {
			unsupported("non-integer constant for integer type")
		}
		if signed {
			if i, exact := constant.Int64Val(cv); exact {
				return ts.BV(uint64(i), w)
			}
		}
		if u, exact := constant.Uint64Val(cv); exact {
			return ts.BV(u, w)
		}
		if i, exact := constant.Int64Val(cv); exact {
			return ts.BV(uint64(i), w)
		}
		unsupported("integer constant out of range")
	}
	if s, ok := isFloat(t); ok {
		f, _ := constant.Float64Val(cv)
		if s == FP32Sort {
			return ts.FP32(float32(f))
		}
		return ts.FP64(f)
	}
	if isBool(t) {
		return ts.Bool(constant.BoolVal(cv))
	}
	if isString(t) {
		return &StrV{Concrete: true, S: constant.StringVal(cv)}
	}
	if _, ok := t.Underlying().(*types.Interface); ok {
		// constant converted to interface (e.g. passed to fmt): opaque
		return &OpaqueV{What: "const"}
	}
	unsupported("constant of type %s", t)
	return nil
}

func (ex *Exec) evalBool(e ast.Expr, st *State) *Term {
	v := ex.eval(e, st)
	t, ok := v.(*Term)
	if !ok || t.Sort != BoolSort {
		unsupported("expected boolean at %s", ex.pos(e.Pos()))
	}
	return t
}

// evalTo evaluates e; want (if non-nil) is the type it is assigned to.
func (ex *Exec) evalTo(e ast.Expr, st *State, want types.Type) Value {
	v := ex.eval(e, st)
	return v
}

// convertAssign adapts a value to an assignment target type (interface wrapping).
func (ex *Exec) convertAssign(v Value, to types.Type, st *State) Value {
	if to == nil {
		return v
	}
	if _, isNil := v.(*NilLit); isNil {
		return ex.zeroValue(to)
	}
	if _, isIface := to.Underlying().(*types.Interface); isIface {
		switch x := v.(type) {
		case *IfaceV, *OpaqueV:
			return x
		case *PtrV:
			if x.Nil && x.Loc == nil {
				return &IfaceV{Nil: true}
			}
		}
		return v // dynamic type is recovered from the value where needed
	}
	return v
}

func (ex *Exec) eval(e ast.Expr, st *State) Value {
	if tv, ok := ex.tvOf(e); ok && tv.Value != nil {
		return ex.constValue(tv.Value, tv.Type)
	}
	switch e := e.(type) {
	case *ast.ParenExpr:
		return ex.eval(e.X, st)
	case *ast.Ident:
		return ex.evalIdent(e, st)
	case *ast.SelectorExpr:
		return ex.evalSelector(e, st)
	case *ast.IndexExpr:
		return ex.evalIndex(e, st)
	case *ast.SliceExpr:
		return ex.evalSliceExpr(e, st)
	case *ast.StarExpr:
		p := ex.eval(e.X, st)
		if hv, isRef := p.(*HeapRefV); isRef {
			return ex.heapLoadAll(st, hv, e.Pos())
		}
		pv, ok := p.(*PtrV)
		if !ok {
			unsupported("dereference of %T at %s", p, ex.pos(e.Pos()))
		}
		if !ex.checkNil(st, pv, e.Pos()) {
			return ex.zeroValue(ex.typeOf(e))
		}
		return ex.getPath(ex.load(st, pv.Loc), pv.Path, st, e.Pos())
	case *ast.UnaryExpr:
		return ex.evalUnary(e, st)
	case *ast.BinaryExpr:
		return ex.evalBinary(e, st)
	case *ast.CallExpr:
		return ex.evalCall(e, st)
	case *ast.CompositeLit:
		return ex.evalCompositeLit(e, st)
	case *ast.FuncLit:
		// closure: everything visible may be captured by reference
		for env := ex.cur().env; env != nil; env = env.parent {
			for _, l := range env.vars {
				ex.escaped[l] = true
			}
		}
		return &FuncV{Lit: e, Env: ex.cur().env, Pkg: ex.cur().pkg}
	case *ast.TypeAssertExpr:
		v := ex.eval(e.X, st)
		if iv, ok := v.(*IfaceV); ok && !iv.Nil && types.Identical(iv.Typ, ex.typeOf(e)) {
			return iv.V
		}
		// a pointer stored in an interface without a wrapper: its pointee type is its dynamic type
		if pv, ok := v.(*PtrV); ok && !pv.Nil && len(pv.Path) == 0 {
			if pt, isPtr := ex.typeOf(e).(*types.Pointer); isPtr && pv.Loc.Typ != nil && types.Identical(pv.Loc.Typ, pt.Elem()) {
				return pv
			}
		}
		unsupported("type assertion of %T (%v) to %s at %s", v, func() interface{} { if iv, ok := v.(*IfaceV); ok { return iv.Typ }; return nil }(), ex.typeOf(e), ex.pos(e.Pos()))
	}
	unsupported("expression %T at %s", e, ex.pos(e.Pos()))
	return nil
}

func (ex *Exec) evalIdent(e *ast.Ident, st *State) Value {
	obj := ex.objOf(e)
	switch o := obj.(type) {
	case *types.Nil:
		t := ex.typeOf(e)
		if b, ok := t.(*types.Basic); ok && b.Kind() == types.UntypedNil {
			return &NilLit{}
		}
		return ex.zeroValue(t)
	case *types.Var:
		if l := ex.cur().env.Lookup(o); l != nil {
			return ex.load(st, l)
		}
		if o.Pkg() != nil && o.Parent() == o.Pkg().Scope() {
			return ex.load(st, ex.globalLoc(o, st))
		}
		unsupported("unbound variable %s at %s", e.Name, ex.pos(e.Pos()))
	case *types.Func:
		return ex.funcValue(o, nil)
	case *types.Const:
		return ex.constValue(o.Val(), o.Type())
	case *types.Builtin:
		return &FuncV{Named: "builtin." + o.Name()}
	}
	if e.Name == "_" {
		return nil
	}
	unsupported("identifier %s (%T) at %s", e.Name, obj, ex.pos(e.Pos()))
	return nil
}

func (ex *Exec) funcValue(o *types.Func, recv Value) Value {
	o = o.Origin()
	if fi, ok := ex.prog.Funcs[o]; ok {
		return &FuncV{Decl: fi.Decl, Obj: o, Pkg: fi.Pkg, Recv: recv}
	}
	return &FuncV{Named: o.FullName(), Obj: o, Recv: recv}
}

func (ex *Exec) evalSelector(e *ast.SelectorExpr, st *State) Value {
	sel := ex.selOf(e)
	if sel == nil {
		// qualified identifier
		return ex.evalIdent(e.Sel, st)
	}
	switch sel.Kind() {
	case types.FieldVal:
		base := ex.eval(e.X, st)
		v := ex.fieldPath(base, sel.Index(), st, e.Pos())
		if v == nil && st.pc.IsFalse() {
			return ex.zeroValue(ex.typeOf(e))
		}
		return v
	case types.MethodVal:
		fn := sel.Obj().(*types.Func)
		recv := ex.methodRecv(e.X, sel, st)
		return ex.funcValue(fn, recv)
	case types.MethodExpr:
		return ex.funcValue(sel.Obj().(*types.Func), nil)
	}
	unsupported("selector at %s", ex.pos(e.Pos()))
	return nil
}

func (ex *Exec) fieldPath(base Value, idx []int, st *State, p token.Pos) Value {
	v := base
	for _, i := range idx {
		if pv, ok := v.(*PtrV); ok {
			if !ex.checkNil(st, pv, p) {
				return ex.deadValue
			}
			v = ex.getPath(ex.load(st, pv.Loc), pv.Path, st, p)
		}
		if hv, ok := v.(*HeapRefV); ok {
			v = ex.heapLoadField(st, hv, i, p)
			continue
		}
		sv, ok := v.(*StructV)
		if !ok {
			unsupported("field of %T at %s", v, ex.pos(p))
		}
		v = sv.Fields[i]
	}
	return v
}

func unsupportedIfLive(st *State, msg string) {}

// methodRecv computes the receiver value for calling the selected method on x.
func (ex *Exec) methodRecv(x ast.Expr, sel *types.Selection, st *State) Value {
	fn := sel.Obj().(*types.Func)
	sig := fn.Type().(*types.Signature)
	_, wantPtr := sig.Recv().Type().(*types.Pointer)
	xt := ex.typeOf(x)
	_, isIface := xt.Underlying().(*types.Interface)
	if isIface {
		return ex.eval(x, st)
	}
	_, havePtr := xt.Underlying().(*types.Pointer)
	idx := sel.Index()
	embedded := idx[:len(idx)-1]
	if len(embedded) > 0 {
		unsupported("method through embedded field at %s", ex.pos(x.Pos()))
	}
	switch {
	case wantPtr && havePtr:
		return ex.eval(x, st)
	case wantPtr && !havePtr:
		lv := ex.lvalue(x, st)
		if lv.Map != nil {
			unsupported("address of map element")
		}
		ex.escaped[lv.Loc] = true
		return &PtrV{Loc: lv.Loc, Path: lv.Path}
	case !wantPtr && havePtr:
		p := ex.eval(x, st)
		switch pv := p.(type) {
		case *PtrV:
			if !ex.checkNil(st, pv, x.Pos()) {
				return ex.zeroValue(sig.Recv().Type())
			}
			return ex.getPath(ex.load(st, pv.Loc), pv.Path, st, x.Pos())
		case *HeapRefV:
			return ex.heapLoadAll(st, pv, x.Pos())
		}
		unsupported("receiver %T", p)
	}
	return ex.eval(x, st)
}

func (ex *Exec) indexTerm(e ast.Expr, st *State) *Term {
	v := ex.eval(e, st)
	t, ok := v.(*Term)
	if !ok {
		unsupported("non-scalar index at %s", ex.pos(e.Pos()))
	}
	_, signed, _ := intInfo(ex.typeOf(e))
	return ex.ts.Resize(t, 64, signed)
}

// boundsCheck emits 0 <= idx < n.
func (ex *Exec) boundsCheck(st *State, idx *Term, n int, p token.Pos) {
	if idx.Op == OpConst {
		if int64(idx.BV) >= 0 && int64(idx.BV) < int64(n) {
			return
		}
	}
	ok := ex.ts.BVCmp(OpBVUlt, idx, ex.ts.BV(uint64(n), 64))
	ex.assert(st, "safety.index", ok, p, "index in range [0,"+itoa(n)+")")
}

func (ex *Exec) evalIndex(e *ast.IndexExpr, st *State) Value {
	xt := ex.typeOf(e.X).Underlying()
	switch t := xt.(type) {
	case *types.Signature:
		return ex.eval(e.X, st) // generic instantiation
	case *types.Map:
		mv := ex.eval(e.X, st)
		k := ex.eval(e.Index, st)
		v, _ := ex.mapGet(st, mv, k, t)
		return v
	case *types.Array:
		base := ex.eval(e.X, st)
		idx := ex.indexTerm(e.Index, st)
		ex.boundsCheck(st, idx, int(t.Len()), e.Pos())
		return ex.indexValue(base, idx, st, e.Pos())
	case *types.Pointer:
		pv := ex.eval(e.X, st).(*PtrV)
		base := ex.getPath(ex.load(st, pv.Loc), pv.Path, st, e.Pos())
		idx := ex.indexTerm(e.Index, st)
		ex.boundsCheck(st, idx, int(t.Elem().Underlying().(*types.Array).Len()), e.Pos())
		return ex.indexValue(base, idx, st, e.Pos())
	case *types.Slice:
		base := ex.eval(e.X, st)
		idx := ex.indexTerm(e.Index, st)
		switch sv := base.(type) {
		case *SliceV:
			ex.boundsCheck(st, idx, sv.Len, e.Pos())
			if st.pc.IsFalse() || sv.Len == 0 {
				return ex.zeroValue(t.Elem())
			}
			back := ex.load(st, sv.Loc).(*ArrayV)
			view := &ArrayV{Elems: back.Elems[sv.Off : sv.Off+sv.Len]}
			return ex.selectArray(view, idx)
		case *SymSliceV:
			return ex.symSliceIndex(st, sv, idx, e.Pos())
		}
		unsupported("index of %T at %s", base, ex.pos(e.Pos()))
	case *types.Basic:
		if isString(t) {
			sv := ex.eval(e.X, st).(*StrV)
			idx := ex.indexTerm(e.Index, st)
			if sv.Concrete && idx.Op == OpConst {
				ex.boundsCheck(st, idx, len(sv.S), e.Pos())
				return ex.ts.BV(uint64(sv.S[int(idx.BV)]), 8)
			}
		}
	}
	unsupported("index expression on %s at %s", xt, ex.pos(e.Pos()))
	return nil
}

func (ex *Exec) indexValue(base Value, idx *Term, st *State, p token.Pos) Value {
	switch b := base.(type) {
	case *ArrayV:
		if st.pc.IsFalse() {
			return b.Elems[0]
		}
		return ex.selectArray(b, idx)
	case *UFArrayV:
		return ex.ufIndex(b, idx)
	}
	unsupported("index of %T at %s", base, ex.pos(p))
	return nil
}

func (ex *Exec) evalSliceExpr(e *ast.SliceExpr, st *State) Value {
	base := ex.eval(e.X, st)
	cidx := func(x ast.Expr, def int) int {
		if x == nil {
			return def
		}
		t := ex.indexTerm(x, st)
		if t.Op != OpConst {
			unsupported("symbolic slice bound at %s", ex.pos(x.Pos()))
		}
		return int(t.BV)
	}
	switch b := base.(type) {
	case *SliceV:
		lo := cidx(e.Low, 0)
		hi := cidx(e.High, b.Len)
		mx := cidx(e.Max, b.Cap)
		if lo < 0 || hi < lo || hi > b.Cap || mx > b.Cap || hi > mx {
			ex.assert(st, "safety.slice", ex.ts.False(), e.Pos(), "slice bounds")
			st.pc = ex.ts.False()
			return b
		}
		if b.Nil {
			return b
		}
		return &SliceV{Loc: b.Loc, Off: b.Off + lo, Len: hi - lo, Cap: mx - lo}
	case *SymSliceV:
		return ex.symSliceSlice(st, b, e)
	case *ArrayV:
		// slicing an addressable array
		lv := ex.lvalue(e.X, st)
		if len(lv.Path) != 0 {
			unsupported("slice of nested array at %s", ex.pos(e.Pos()))
		}
		ex.escaped[lv.Loc] = true
		n := len(b.Elems)
		lo := cidx(e.Low, 0)
		hi := cidx(e.High, n)
		return &SliceV{Loc: lv.Loc, Off: lo, Len: hi - lo, Cap: n - lo}
	case *StrV:
		if b.Concrete {
			lo := cidx(e.Low, 0)
			hi := cidx(e.High, len(b.S))
			if lo < 0 || hi < lo || hi > len(b.S) {
				ex.assert(st, "safety.slice", ex.ts.False(), e.Pos(), "string slice bounds")
				st.pc = ex.ts.False()
				return b
			}
			return &StrV{Concrete: true, S: b.S[lo:hi]}
		}
	}
	unsupported("slice expression on %T at %s", base, ex.pos(e.Pos()))
	return nil
}

func (ex *Exec) evalUnary(e *ast.UnaryExpr, st *State) Value {
	switch e.Op {
	case token.AND:
		if cl, ok := ast.Unparen(e.X).(*ast.CompositeLit); ok {
			v := ex.evalCompositeLit(cl, st)
			if hc := ex.heapClassOf(ex.typeOf(cl)); hc != nil {
				return ex.heapAlloc(st, hc, v.(*StructV))
			}
			l := ex.newLoc("&lit", ex.typeOf(cl))
			ex.escaped[l] = true
			st.store[l] = v
			return &PtrV{Loc: l}
		}
		if ix, ok := ast.Unparen(e.X).(*ast.IndexExpr); ok {
			if stp, isSlice := ex.typeOf(ix.X).Underlying().(*types.Slice); isSlice {
				if sv, isSym := ex.eval(ix.X, st).(*SymSliceV); isSym {
					idx := ex.indexTerm(ix.Index, st)
					ex.assert(st, "safety.index", ex.ts.BVCmp(OpBVUlt, idx, sv.Len), ix.Pos(), "index below the slice length")
					return &ElemAddrV{Owner: ex.lvalue(ix.X, st), Idx: idx, Elem: stp.Elem()}
				}
			}
		}
		lv := ex.lvalue(e.X, st)
		if lv.Map != nil {
			unsupported("address of map element")
		}
		ex.escaped[lv.Loc] = true
		return &PtrV{Loc: lv.Loc, Path: lv.Path}
	case token.NOT:
		return ex.ts.Not(ex.evalBool(e.X, st))
	case token.SUB:
		v := ex.eval(e.X, st).(*Term)
		if v.Sort.Kind == SBV {
			return ex.ts.BVUn(OpBVNeg, v)
		}
		return ex.ts.FPUn(OpFPNeg, v)
	case token.XOR:
		return ex.ts.BVUn(OpBVNot, ex.eval(e.X, st).(*Term))
	case token.ADD:
		return ex.eval(e.X, st)
	}
	unsupported("unary %s at %s", e.Op, ex.pos(e.Pos()))
	return nil
}

func (ex *Exec) evalBinary(e *ast.BinaryExpr, st *State) Value {
	ts := ex.ts
	if e.Op == token.LAND || e.Op == token.LOR {
		a := ex.evalBool(e.X, st)
		if e.Op == token.LAND {
			if a.IsFalse() {
				return a
			}
			if a.IsTrue() {
				return ex.evalBool(e.Y, st)
			}
		} else {
			if a.IsTrue() {
				return a
			}
			if a.IsFalse() {
				return ex.evalBool(e.Y, st)
			}
		}
		guard := a
		if e.Op == token.LOR {
			guard = ts.Not(a)
		}
		// evaluate Y only where it is reached
		s2 := st.fork(ts.And(st.pc, guard))
		b := ex.evalBool(e.Y, s2)
		ex.joinInto(st, guard, s2)
		if e.Op == token.LAND {
			return ts.And(a, b)
		}
		return ts.Or(a, b)
	}
	x := ex.eval(e.X, st)
	y := ex.eval(e.Y, st)
	return ex.binop(e.Op, x, y, ex.typeOf(e.X), ex.typeOf(e.Y), st, e.Pos())
}

// joinInto merges the effects of sub-state s2 (taken when guard holds) back into st.
func (ex *Exec) joinInto(st *State, guard *Term, s2 *State) {
	if s2.pc.IsFalse() {
		// the guarded evaluation is impossible or diverged (panic): guard cannot hold
		st.pc = ex.ts.And(st.pc, ex.ts.Not(guard))
		return
	}
	for k, v2 := range s2.store {
		v1, ok := st.store[k]
		if !ok {
			if base, inBase := ex.base[k]; inBase {
				v1, ok = base, true
			}
		}
		if !ok {
			st.store[k] = v2
			continue
		}
		if v1 != v2 {
			st.store[k] = ex.iteValue(guard, v2, v1)
		}
	}
	// s2.pc may have been strengthened by in-range assumptions: keep pc = (guard ∧ s2.pc) ∨ (¬guard ∧ pc)
	if s2.pc != ex.ts.And(st.pc, guard) {
		st.pc = ex.ts.OrPC(s2.pc, ex.ts.And(st.pc, ex.ts.Not(guard)))
	}
}

func (ex *Exec) binop(op token.Token, x, y Value, xt, yt types.Type, st *State, p token.Pos) Value {
	ts := ex.ts
	if _, isNil := x.(*NilLit); isNil {
		x = ex.zeroValue(yt)
	}
	if _, isNil := y.(*NilLit); isNil {
		y = ex.zeroValue(xt)
	}
	switch op {
	case token.EQL:
		return ex.eqValue(x, y)
	case token.NEQ:
		return ts.Not(ex.eqValue(x, y))
	}
	if sx, ok := x.(*StrV); ok {
		sy := y.(*StrV)
		if op == token.ADD && sx.Concrete && sy.Concrete {
			return &StrV{Concrete: true, S: sx.S + sy.S}
		}
		if op == token.ADD {
			return &StrV{T: ts.Fresh("strcat", IntSort)}
		}
		unsupported("string operator %s at %s", op, ex.pos(p))
	}
	a, ok1 := x.(*Term)
	b, ok2 := y.(*Term)
	if !ok1 || !ok2 {
		unsupported("binary %s on %T,%T at %s", op, x, y, ex.pos(p))
	}
	if a.Sort == BoolSort {
		unsupported("boolean operator %s", op)
	}
	if a.Sort.Kind == SFP32 || a.Sort.Kind == SFP64 {
		switch op {
		case token.ADD:
			return ts.FPBin(OpFPAdd, a, b)
		case token.SUB:
			return ts.FPBin(OpFPSub, a, b)
		case token.MUL:
			return ts.FPBin(OpFPMul, a, b)
		case token.QUO:
			return ts.FPBin(OpFPDiv, a, b)
		case token.LSS:
			return ts.FPBin(OpFPLt, a, b)
		case token.LEQ:
			return ts.FPBin(OpFPLe, a, b)
		case token.GTR:
			return ts.FPBin(OpFPLt, b, a)
		case token.GEQ:
			return ts.FPBin(OpFPLe, b, a)
		}
		unsupported("float operator %s", op)
	}
	if a.Sort.Kind == SInt {
		switch op {
		case token.ADD:
			return ts.IntBin(OpIntAdd, a, b)
		case token.SUB:
			return ts.IntBin(OpIntSub, a, b)
		case token.LSS:
			return ts.IntBin(OpIntLt, a, b)
		case token.LEQ:
			return ts.IntBin(OpIntLe, a, b)
		case token.GTR:
			return ts.IntBin(OpIntLt, b, a)
		case token.GEQ:
			return ts.IntBin(OpIntLe, b, a)
		}
	}
	w, signed, _ := intInfo(xt)
	if op == token.SHL || op == token.SHR {
		cw, csigned, _ := intInfo(yt)
		_ = cw
		if csigned {
			if !(b.Op == OpConst && signExt(b.BV, b.Sort.W) >= 0) {
				ok := ts.BVCmp(OpBVSle, ts.BV(0, b.Sort.W), b)
				ex.assert(st, "safety.shift", ok, p, "shift count non-negative")
			}
		}
		var cnt *Term
		var big *Term = ts.False()
		if b.Sort.W > w {
			big = ts.BVCmp(OpBVUle, ts.BV(uint64(w), b.Sort.W), b)
			cnt = ts.Extract(w-1, 0, b)
		} else {
			cnt = ts.ZeroExt(w-b.Sort.W, b)
		}
		var r *Term
		switch {
		case op == token.SHL:
			r = ts.Ite(big, ts.BV(0, w), ts.BVBin(OpBVShl, a, cnt))
		case signed:
			r = ts.Ite(big, ts.BVBin(OpBVAshr, a, ts.BV(uint64(w-1), w)), ts.BVBin(OpBVAshr, a, cnt))
		default:
			r = ts.Ite(big, ts.BV(0, w), ts.BVBin(OpBVLshr, a, cnt))
		}
		return r
	}
	if a.Sort != b.Sort {
		unsupported("operand width mismatch for %s at %s (%s vs %s)", op, ex.pos(p), a.Sort, b.Sort)
	}
	switch op {
	case token.ADD:
		return ts.BVBin(OpBVAdd, a, b)
	case token.SUB:
		return ts.BVBin(OpBVSub, a, b)
	case token.MUL:
		return ts.BVBin(OpBVMul, a, b)
	case token.QUO, token.REM:
		nz := ts.Not(ts.Eq(b, ts.BV(0, w)))
		if !nz.IsTrue() {
			ex.assert(st, "safety.div", nz, p, "divisor non-zero")
		}
		switch {
		case op == token.QUO && signed:
			return ts.BVBin(OpBVSDiv, a, b)
		case op == token.QUO:
			return ts.BVBin(OpBVUDiv, a, b)
		case signed:
			return ts.BVBin(OpBVSRem, a, b)
		default:
			return ts.BVBin(OpBVURem, a, b)
		}
	case token.AND:
		return ts.BVBin(OpBVAnd, a, b)
	case token.OR:
		return ts.BVBin(OpBVOr, a, b)
	case token.XOR:
		return ts.BVBin(OpBVXor, a, b)
	case token.AND_NOT:
		return ts.BVBin(OpBVAnd, a, ts.BVUn(OpBVNot, b))
	case token.LSS:
		if signed {
			return ts.BVCmp(OpBVSlt, a, b)
		}
		return ts.BVCmp(OpBVUlt, a, b)
	case token.LEQ:
		if signed {
			return ts.BVCmp(OpBVSle, a, b)
		}
		return ts.BVCmp(OpBVUle, a, b)
	case token.GTR:
		if signed {
			return ts.BVCmp(OpBVSlt, b, a)
		}
		return ts.BVCmp(OpBVUlt, b, a)
	case token.GEQ:
		if signed {
			return ts.BVCmp(OpBVSle, b, a)
		}
		return ts.BVCmp(OpBVUle, b, a)
	}
	unsupported("binary operator %s at %s", op, ex.pos(p))
	return nil
}

// convert implements Go conversions T(x).
func (ex *Exec) convert(v Value, from, to types.Type, st *State, p token.Pos) Value {
	ts := ex.ts
	if types.Identical(from.Underlying(), to.Underlying()) {
		return v
	}
	if t, ok := v.(*Term); ok {
		tw, tsigned, tIsInt := intInfo(to)
		_, fsigned, fIsInt := intInfo(from)
		if fIsInt && tIsInt {
			_ = tsigned
			return ts.Resize(t, tw, fsigned)
		}
		if fs, ok := isFloat(to); ok {
			if fIsInt {
				if fsigned {
					return ts.FPConv(OpFPFromSBV, t, fs)
				}
				return ts.FPConv(OpFPFromUBV, t, fs)
			}
			if _, ok := isFloat(from); ok {
				return ts.FPConv(OpFPToFP, t, fs)
			}
		}
		if _, ok := isFloat(from); ok && tIsInt {
			ex.assumptions["float->int conversion assumed in range (Go leaves out-of-range results implementation-defined)"] = true
			r := ts.FPConv(OpFPToSBV, t, BVSort(64))
			return ts.Resize(r, tw, true)
		}
		if isString(to) && fIsInt {
			if t.Op == OpConst {
				return &StrV{Concrete: true, S: string(rune(t.BV))}
			}
			return &StrV{T: ts.Fresh("runestr", IntSort)}
		}
	}
	if _, ok := to.Underlying().(*types.Interface); ok {
		return ex.convertAssign(v, to, st)
	}
	if sv, ok := v.(*StrV); ok {
		if sl, ok := to.Underlying().(*types.Slice); ok {
			return ex.stringToSlice(st, sv, sl, p)
		}
	}
	switch v.(type) {
	case *SliceV, *SymSliceV:
		if isString(to) {
			return &StrV{T: ts.Fresh("slicestr", IntSort)}
		}
		return v
	case *PtrV, *FuncV, *StructV, *ArrayV, *HeapRefV, *MapV, *ElemAddrV:
		return v
	}
	unsupported("conversion from %s to %s at %s", from, to, ex.pos(p))
	return nil
}

func (ex *Exec) evalCompositeLit(e *ast.CompositeLit, st *State) Value {
	t := ex.typeOf(e)
	switch u := t.Underlying().(type) {
	case *types.Struct:
		sv := ex.zeroValue(t).(*StructV)
		sv = &StructV{Fields: append([]Value(nil), sv.Fields...)}
		for i, el := range e.Elts {
			if kv, ok := el.(*ast.KeyValueExpr); ok {
				name := kv.Key.(*ast.Ident).Name
				for j := 0; j < u.NumFields(); j++ {
					if u.Field(j).Name() == name {
						sv.Fields[j] = ex.convertAssign(ex.evalElt(kv.Value, st, u.Field(j).Type()), u.Field(j).Type(), st)
					}
				}
			} else {
				sv.Fields[i] = ex.convertAssign(ex.evalElt(el, st, u.Field(i).Type()), u.Field(i).Type(), st)
			}
		}
		return sv
	case *types.Array:
		av := ex.zeroValue(t).(*ArrayV)
		av = &ArrayV{Elems: append([]Value(nil), av.Elems...)}
		ex.fillElems(av.Elems, e.Elts, u.Elem(), st)
		return av
	case *types.Slice:
		n := 0
		idx := 0
		for _, el := range e.Elts {
			if kv, ok := el.(*ast.KeyValueExpr); ok {
				idx = int(ex.eval(kv.Key, st).(*Term).BV)
			}
			idx++
			if idx > n {
				n = idx
			}
		}
		elems := make([]Value, n)
		if n > 0 {
			z := ex.zeroValue(u.Elem())
			for i := range elems {
				elems[i] = z
			}
		}
		ex.fillElems(elems, e.Elts, u.Elem(), st)
		l := ex.newLoc("slicelit", types.NewArray(u.Elem(), int64(n)))
		ex.escaped[l] = true
		st.store[l] = &ArrayV{Elems: elems}
		return &SliceV{Loc: l, Len: n, Cap: n}
	case *types.Map:
		return ex.mapLit(st, e, u)
	}
	unsupported("composite literal of %s at %s", t, ex.pos(e.Pos()))
	return nil
}

func (ex *Exec) evalElt(e ast.Expr, st *State, t types.Type) Value {
	if cl, ok := e.(*ast.CompositeLit); ok && cl.Type == nil {
		// elided type: go/types records it
		return ex.evalCompositeLit(cl, st)
	}
	return ex.eval(e, st)
}

func (ex *Exec) fillElems(elems []Value, elts []ast.Expr, et types.Type, st *State) {
	idx := 0
	for _, el := range elts {
		if kv, ok := el.(*ast.KeyValueExpr); ok {
			idx = int(ex.eval(kv.Key, st).(*Term).BV)
			elems[idx] = ex.evalElt(kv.Value, st, et)
		} else {
			elems[idx] = ex.evalElt(el, st, et)
		}
		idx++
	}
}

// lvalue resolves an addressable expression.
func (ex *Exec) lvalue(e ast.Expr, st *State) LV {
	switch e := e.(type) {
	case *ast.ParenExpr:
		return ex.lvalue(e.X, st)
	case *ast.Ident:
		obj := ex.objOf(e)
		v, ok := obj.(*types.Var)
		if !ok {
			unsupported("assignment to %s", e.Name)
		}
		if l := ex.cur().env.Lookup(v); l != nil {
			return LV{Loc: l}
		}
		if v.Pkg() != nil && v.Parent() == v.Pkg().Scope() {
			return LV{Loc: ex.globalLoc(v, st)}
		}
		unsupported("unbound variable %s", e.Name)
	case *ast.SelectorExpr:
		sel := ex.selOf(e)
		if sel == nil {
			return ex.lvalue(e.Sel, st)
		}
		if sel.Kind() != types.FieldVal {
			unsupported("lvalue selector at %s", ex.pos(e.Pos()))
		}
		xt := ex.typeOf(e.X)
		var lv LV
		if _, isPtr := xt.Underlying().(*types.Pointer); isPtr {
			pv := ex.eval(e.X, st)
			switch p := pv.(type) {
			case *PtrV:
				if !ex.checkNil(st, p, e.Pos()) {
					l := ex.newLoc("nil", xt.Underlying().(*types.Pointer).Elem())
					st.store[l] = ex.zeroValue(l.Typ)
					p = &PtrV{Loc: l}
				}
				lv = LV{Loc: p.Loc, Path: append([]PathElem(nil), p.Path...)}
			case *HeapRefV:
				return ex.heapFieldLV(st, p, sel.Index(), e.Pos())
			default:
				unsupported("field store through %T", pv)
			}
		} else {
			lv = ex.lvalue(e.X, st)
			lv.Path = append([]PathElem(nil), lv.Path...)
		}
		idx := sel.Index()
		if len(idx) != 1 {
			unsupported("embedded field lvalue at %s", ex.pos(e.Pos()))
		}
		lv.Path = append(lv.Path, PathElem{Idx: idx[0]})
		return lv
	case *ast.IndexExpr:
		xt := ex.typeOf(e.X).Underlying()
		switch t := xt.(type) {
		case *types.Array:
			lv := ex.lvalue(e.X, st)
			idx := ex.indexTerm(e.Index, st)
			ex.boundsCheck(st, idx, int(t.Len()), e.Pos())
			lv.Path = append([]PathElem(nil), lv.Path...)
			if idx.Op == OpConst {
				lv.Path = append(lv.Path, PathElem{Idx: int(idx.BV)})
			} else {
				lv.Path = append(lv.Path, PathElem{Sym: idx})
			}
			return lv
		case *types.Slice:
			base := ex.eval(e.X, st)
			sv, ok := base.(*SliceV)
			if !ok {
				unsupported("store into %T at %s", base, ex.pos(e.Pos()))
			}
			idx := ex.indexTerm(e.Index, st)
			ex.boundsCheck(st, idx, sv.Len, e.Pos())
			if idx.Op == OpConst {
				return LV{Loc: sv.Loc, Path: []PathElem{{Idx: sv.Off + int(idx.BV)}}}
			}
			return LV{Loc: sv.Loc, Path: []PathElem{{Sym: ex.ts.BVBin(OpBVAdd, idx, ex.ts.BV(uint64(sv.Off), 64))}}}
		case *types.Map:
			mlv := ex.lvalue(e.X, st)
			k := ex.eval(e.Index, st)
			return LV{Map: &mapLV{Base: mlv, Key: k, Typ: t}}
		case *types.Pointer:
			pv := ex.eval(e.X, st).(*PtrV)
			idx := ex.indexTerm(e.Index, st)
			ex.boundsCheck(st, idx, int(t.Elem().Underlying().(*types.Array).Len()), e.Pos())
			lv := LV{Loc: pv.Loc, Path: append([]PathElem(nil), pv.Path...)}
			if idx.Op == OpConst {
				lv.Path = append(lv.Path, PathElem{Idx: int(idx.BV)})
			} else {
				lv.Path = append(lv.Path, PathElem{Sym: idx})
			}
			return lv
		}
	case *ast.StarExpr:
		pv := ex.eval(e.X, st)
		if p, ok := pv.(*PtrV); ok && ex.checkNil(st, p, e.Pos()) {
			return LV{Loc: p.Loc, Path: p.Path}
		}
		if _, ok := pv.(*PtrV); ok {
			l := ex.newLoc("nil", ex.typeOf(e))
			st.store[l] = ex.zeroValue(l.Typ)
			return LV{Loc: l}
		}
		unsupported("store through %T at %s", pv, ex.pos(e.Pos()))
	case *ast.CompositeLit:
		// method call on a literal with pointer receiver etc.
		l := ex.newLoc("lit", ex.typeOf(e))
		st.store[l] = ex.evalCompositeLit(e, st)
		return LV{Loc: l}
	case *ast.CallExpr:
		// value receiver temp
		l := ex.newLoc("tmp", ex.typeOf(e))
		st.store[l] = ex.eval(e, st)
		return LV{Loc: l}
	}
	unsupported("lvalue %T at %s", e, ex.pos(e.Pos()))
	return LV{}
}

var _ = math.MaxInt8
