#!/bin/bash
# usage: tools/seedtest.sh <patch.diff> <prop> [<prop>...]
# Applies the patch to /repo, runs the quick checks, restores /repo.
set -u
patch="$1"; shift
git -C /repo diff --quiet || { echo "/repo has uncommitted changes"; exit 2; }
git -C /repo apply "$patch" || { echo "patch does not apply"; exit 2; }
trap 'git -C /repo checkout -- .' EXIT
for p in "$@"; do
  out=$(/verif/check "$p" --tier quick 2>&1); rc=$?
  echo "--- $p exit=$rc"
  echo "$out" | grep -E 'VIOLATION|failed obligation|MACHINERY|UNDECIDED|^C[0-9]+:' | head -12
done
