#!/bin/bash
# runs every claimed quick check on the current tree, prints one line each
cd /verif
for p in $(python3 -c "import json;print(' '.join(c['property_id'] for c in json.load(open('MANIFEST.json'))['checks']))"); do
  s=$(date +%s); out=$(./check $p --tier quick 2>&1); rc=$?; e=$(date +%s)
  echo "$p exit=$rc $((e-s))s  $(echo "$out" | tail -1)"
  [ $rc -ne 0 ] && echo "$out" | grep -E 'VIOLATION|failed obligation|MACHINERY|UNDECIDED' | head -5
done
