#!/usr/bin/env python3
"""Must-fail self test of the thorough tier.

For every stored seeded change whose meta.json lists this property under caught_by,
copy /repo's working tree to a scratch directory, apply the change, run the quick check there
(outputs redirected to the scratch directory) and expect exit 1. The outcome is added to the
evidence file of the real run under coverage.must_fail_corpus. A seed that no longer applies
(the code moved on) is skipped and listed. The real run's verdict is not changed by this step:
a seed that is not caught prints a SELFTEST-MISS line (exit stays 0), because the verdict on the
unchanged tree is the obligations' business; the line is there for whoever maintains the check.
"""
import glob, json, os, shutil, subprocess, sys, tempfile, time

prop = sys.argv[1]
verif = os.path.dirname(os.path.dirname(os.path.abspath(__file__)))
seeds = []
for meta in sorted(glob.glob(os.path.join(verif, "seeded", "*", "meta.json"))):
    d = json.load(open(meta))
    if prop in (d.get("caught_by") or []):
        seeds.append(os.path.dirname(meta))
results = []
t0 = time.time()
for sd in seeds:
    name = os.path.basename(sd)
    scratch = tempfile.mkdtemp(prefix="govc-mustfail-")
    try:
        repo = os.path.join(scratch, "repo")
        subprocess.run(["rsync", "-a", "--exclude", ".git", "/repo/", repo + "/"], check=True)
        ap = subprocess.run(["git", "apply", "--unsafe-paths", "--directory=" + repo, os.path.join(sd, "patch.diff")],
                            cwd=scratch, capture_output=True, text=True)
        if ap.returncode != 0:
            ap = subprocess.run(["patch", "-p1", "-s", "-i", os.path.join(sd, "patch.diff")], cwd=repo, capture_output=True, text=True)
        if ap.returncode != 0:
            results.append({"seed": name, "outcome": "skipped: patch no longer applies"})
            print(f"SELFTEST-SKIP property={prop} seed={name} (patch no longer applies)")
            continue
        env = dict(os.environ, GOVC_OUT=os.path.join(scratch, "out"))
        s = time.time()
        r = subprocess.run([os.path.join(verif, "bin", "govc"), "check", "-root", repo, "-prop", prop, "-tier", "quick"],
                           env=env, capture_output=True, text=True)
        first = next((l for l in r.stdout.splitlines() if l.startswith("VIOLATION")), "")
        outcome = {1: "caught", 0: "NOT caught", 2: "undecided (exit 2)"}.get(r.returncode, f"exit {r.returncode}")
        results.append({"seed": name, "outcome": outcome, "seconds": round(time.time() - s, 1),
                        "first_violation": first.replace(scratch, "<scratch>")})
        if r.returncode != 1:
            print(f"SELFTEST-MISS property={prop} seed={name} outcome={outcome}")
    finally:
        shutil.rmtree(scratch, ignore_errors=True)
ev = os.path.join(verif, "evidence", prop + ".json")
d = json.load(open(ev))
d["coverage"]["must_fail_corpus"] = results
d["coverage"]["must_fail_rule"] = "stored seeded changes recorded as caught by this property, applied to a scratch copy of /repo's working tree; the quick check must exit 1 there"
d["wall_s"] = round(d.get("wall_s", 0) + time.time() - t0, 1)
json.dump(d, open(ev, "w"), indent=1)
open(ev, "a").write("\n")
caught = sum(1 for r in results if r["outcome"] == "caught")
print(f"{prop}: must-fail corpus {caught}/{len(results)} caught")
sys.exit(0)
