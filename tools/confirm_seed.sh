#!/bin/bash
# usage: tools/confirm_seed.sh <seed dir with patch.diff demo_test.go meta.json>
# Confirms in a scratch worktree of /repo HEAD: patch applies, suite passes with it,
# the demonstration fails with it and passes without it.
set -u
d="$1"
export GOFLAGS=-mod=mod GOPROXY=off GOSUMDB=off GOTOOLCHAIN=local
wt=$(mktemp -d /tmp/confirm-XXXX)
git -C /repo worktree add -q --detach "$wt" HEAD || exit 2
trap 'git -C /repo worktree remove --force "$wt"; rm -f /tmp/*.test.* 2>/dev/null' EXIT
demo_dir=$(python3 -c "import json,sys;print(json.load(open('$d/meta.json'))['demo_dir'])")
cd "$wt"
cp "$d/demo_test.go" "$wt/$demo_dir/zz_seed_demo_test.go"
echo "== demo without patch"
go test -vet=off -count=1 -run . "./$demo_dir/" 2>&1 | tail -3
base=$?
git apply "$d/patch.diff" || { echo "PATCH DOES NOT APPLY"; exit 1; }
echo "== demo with patch"
go test -vet=off -count=1 "./$demo_dir/" 2>&1 | tail -5
rm "$wt/$demo_dir/zz_seed_demo_test.go"
echo "== suite with patch"
go build ./... && go test -vet=off -count=1 ./... 2>&1 | grep -v 'no test files'
